// Engine `sorter`: add order x memory limit (chunking) x pool schedule, with
// mkstemp/unlink observed through the seam.  Serves C06.
#include "common.h"
#include "sorterlib.h"
#include "../sim/simsched.h"
#include "../sim/seams.h"
#include <algorithm>
#include <dirent.h>
#include <sys/stat.h>
#include <unistd.h>

static Plan gen_sorter(const std::string &prop, const std::string &tier, uint64_t seed, uint64_t run)
{
	Plan p;
	p.engine = "sorter"; p.prop = prop; p.tier = tier; p.seed = seed; p.run = run;
	Rng r(seed, run, 0x50a7e4);
	KeyGen kg(r);
	size_t n = r.chance(1, 12) ? 0 : r.chance(1, 2) ? 1 + r.below(30) : 1 + r.below(200);
	int shape = (int)r.below(6);	// 0 random+dups 1 all equal 2 sorted 3 reverse 4 few distinct 5 random
	std::vector<Bytes> keys;
	size_t distinct = shape == 1 ? 1 : shape == 4 ? 1 + r.below(4) : 1 + r.below(n + 1);
	std::vector<Bytes> pool;
	for (size_t i = 0; i < distinct; i++) pool.push_back(kg.key());
	if (r.chance(1, 4)) pool.push_back(Bytes());
	for (size_t i = 0; i < n; i++) keys.push_back(pool[r.below(pool.size())]);
	if (shape == 2) std::sort(keys.begin(), keys.end(), bytes_less);
	if (shape == 3) { std::sort(keys.begin(), keys.end(), bytes_less); std::reverse(keys.begin(), keys.end()); }
	size_t total = 0;
	int mfunc = r.chance(3, 5) ? MF_UNION : 1 + (int)r.below(MF_N - 1);
	p.seti("mfunc", mfunc);
	for (size_t i = 0; i < n; i++) {
		size_t pad = r.chance(1, 10) ? r.below(200) : 0;
		if (mfunc == MF_UNION) p.op("add", { spec_of(keys[i]), std::to_string(pad) });
		else {
			Bytes v = "val"; size_t m = r.below(14); for (size_t q = 0; q < m; q++) v.push_back((char)('a' + r.below(3)));
			if (r.chance(1, 5)) v = kg.value(60);
			p.op("add", { spec_of(keys[i]), "0", spec_of(v) });
			pad = v.size();
		}
		total += keys[i].size() + 6 + pad;
	}
	// memory limit: one entry per chunk ... everything in memory
	uint64_t d = r.below(10);
	size_t mm = d < 2 ? 1 : d < 7 ? 16 + r.below(total / (1 + r.below(12)) + 32) : d < 9 ? total + 1000 : 0;
	p.seti("maxmem", mm);
	p.seti("tmplate", r.chance(1, 5) ? 1 : 0);
	p.seti("maxmem_zero", mm == 0 && r.chance(1, 3) ? 1 : 0);	// ask for 0 bytes: clamped to the minimum
	p.seti("pool", r.chance(1, 2) ? -1 : (long long)(r.chance(1, 10) ? 5 + r.below(4) : r.below(5)));
	p.set("sched", sched_cfg_gen(r, 1200));
	p.seti("finish", r.chance(2, 3) ? 0 : 1);
	p.seti("late", r.chance(2, 3) ? 1 : 0);
	p.seti("abandon", r.chance(1, 8) ? (long long)r.below(10) : -1);
	p.seti("tmpsub", r.below(3));	// nesting depth of the temp dir
	p.seti("tmpshape", r.chance(1, 2) ? 0 : 1 + r.below(4));	// 0 plain absolute, 1 trailing slash, 2 relative to cwd, 3 long component, 4 "./" prefix relative
	return p;
}

static size_t dir_entries(const std::string &d)
{
	size_t n = 0;
	DIR *dir = opendir(d.c_str());
	if (!dir) return 0;
	while (struct dirent *e = readdir(dir)) if (strcmp(e->d_name, ".") && strcmp(e->d_name, "..")) n++;
	closedir(dir);
	return n;
}

static RunResult exec_sorter(const Plan &p)
{
	RunResult res;
	std::string dir = scratch_dir();
	SorterSpec s;
	s.tmpdir = dir + "/spill";
	mkdir(s.tmpdir.c_str(), 0700);
	for (long long i = 0; i < p.geti("tmpsub", 0); i++) { s.tmpdir += "/d" + std::to_string(i); mkdir(s.tmpdir.c_str(), 0700); }
	std::string real_tmpdir = s.tmpdir;	// absolute name, for listing the directory afterwards
	int shape = (int)p.geti("tmpshape", 0);
	if (shape == 3) { s.tmpdir += "/" + std::string(180, 'L'); mkdir(s.tmpdir.c_str(), 0700); real_tmpdir = s.tmpdir; }
	if (shape == 1) s.tmpdir += "/";
	if (shape == 2 || shape == 4) {
		if (chdir(dir.c_str()) != 0) { res.fail("INFRA", "chdir", "cannot enter scratch dir"); return res; }
		s.tmpdir = std::string(shape == 4 ? "./" : "") + real_tmpdir.substr(dir.size() + 1);
	}
	res.probes[std::string("tmpdir-shape-") + std::to_string(shape)]++;
	if (p.geti("tmplate", 0) && (shape == 0 || shape == 1)) {
		// the directory does not exist yet when the option is set; it is created before the first spill
		std::string late = real_tmpdir + "/made-later";
		s.late_mkdir = late;
		s.tmpdir = late + (shape == 1 ? "/" : "");
		real_tmpdir = late;
		res.probes["tmpdir-created-after-the-option-was-set"]++;
	}
	s.max_mem = (size_t)p.geti("maxmem", 0);
	s.set_zero = p.geti("maxmem_zero", 0) != 0;
	s.finish = (int)(p.geti("finish", 0) % 2);
	s.late_calls = p.geti("late", 0) != 0;
	if (p.geti("abandon", -1) >= 0 && s.finish == 0) s.abandon_after = (size_t)p.geti("abandon");
	s.outpath = dir + "/sorted.mtbl";
	size_t i = 0;
	std::map<Bytes, size_t> occ;
	s.mfunc = (int)(p.geti("mfunc", 0) % MF_N);
	res.probes[std::string("merge-func-") + "umlxs"[s.mfunc]]++;
	for (auto &o : p.ops) if (o.name == "add") {
		Bytes v = sorter_token(i++);
		if (o.argi(1) > 0) { v.pop_back(); v.append((size_t)o.argi(1), '.'); v.push_back('\n'); }
		if (s.mfunc != MF_UNION && o.a.size() > 2) v = o.argb(2);
		s.adds.push_back({ o.argb(0), v });
		occ[o.argb(0)]++;
	}
	int pool = (int)p.geti("pool", -1);
	mtbl_threadpool *tp = nullptr;
	s.entry_overhead = sorter_entry_overhead(dir);	// measured once per process, before this run's temp files are counted
	if (s.entry_overhead) res.probes["sorter-accounting-measured"]++;
	sim_ledger_reset();
	if (pool >= 0) {
		sim_sched_cfg sc; sched_cfg_parse(p.gets("sched", "0:1:0:1:0:0:0:1:0:1:200000:1000"), &sc);
		sim_sched_begin(&sc);
		tp = mtbl_threadpool_init((size_t)pool);
		s.pool = tp; s.stateless_merge = true;
	} else s.check_spill = true;
	if (pool <= 0) s.check_spill = true;	// pool object with no inner pool: chunks are written synchronously
	SorterOutcome out;
	run_sorter(s, res, out);
	if (pool >= 0) {
		mtbl_threadpool_destroy(&tp);
		sim_sched_stats st; sim_sched_end(&st);
		res.sched_hash = st.choices_hash; res.steps = st.steps; res.abs_states = st.abs_states;
		res.ev.u(st.choices_hash);
		if (st.unjoined) res.fail("SCHED", "THREAD-LEAK", std::to_string(st.unjoined) + " threads alive after destroy");
		if (st.spurious) res.faults["spurious-wakeup"] += st.spurious;
		if (st.multiwake) res.faults["signal-wakes-two"] += st.multiwake;
		if (st.starves) res.faults["thread-starved"] += st.starves;
		if (st.delays) res.faults["thread-start-delayed"] += st.delays;
		{
			PoolThreads pt = pool_threads(st);
			if (pool > 0 && pt.named && pt.worker_max == (uint32_t)pool) res.probes["pool-saturated"]++;
			if (pool > 0) { std::string wb = worker_bound_broken(st, (uint32_t)pool, 0, 1); if (!wb.empty()) res.fail("SCHED", "WORKER-COUNT", wb); }
		}
		if (pool > 0) res.probes["pooled-sorter"]++;
	}
	// spill files: only inside the configured directory, none left behind
	char tmpl[64][256];
	size_t nt = sim_mkstemp_templates(tmpl, 64);
	sim_ledger lg; sim_ledger_get(&lg);
	out.chunks_spilled = (size_t)lg.mkstemps;
	res.ev.u(out.chunks_spilled);
	for (size_t k = 0; k < nt && k < 64; k++) {
		std::string t = tmpl[k];
		if (t.compare(0, s.tmpdir.size() + 1, s.tmpdir + "/") != 0 || t.find('/', s.tmpdir.size() + 1) != std::string::npos)
			res.fail("MODEL", "SORTER-spill-outside-tmpdir", "spill file template '" + t + "' is not directly inside the configured directory '" + s.tmpdir + "'");
	}
	if (shape == 2 || shape == 4) (void)!chdir("/");
	if (dir_entries(real_tmpdir) != 0) res.fail("MODEL", "SORTER-tmpfile-left", "temporary directory not empty after the sorter was destroyed");
	if (lg.mkstemps != lg.unlinks) res.fail("MODEL", "SORTER-tmpfile-not-unlinked", std::to_string(lg.mkstemps) + " spill files created, " + std::to_string(lg.unlinks) + " unlinked");
	if (out.chunks_spilled < out.limit_crossings)
		res.fail("MODEL", "SORTER-too-few-chunks", "buffered keys+values reached the memory limit " + std::to_string(out.limit_crossings) + " times but only " + std::to_string(out.chunks_spilled) + " spill files were created");
	if (out.chunks_spilled >= 3) res.probes["three-or-more-chunks"]++;
	if (out.chunks_spilled == s.adds.size() && s.adds.size() > 1) res.probes["one-entry-per-chunk"]++;
	if (out.chunks_spilled <= 1 && s.adds.size() > 1) res.probes["everything-in-memory"]++;
	bool dups = false;
	for (auto &kv : occ) if (kv.second >= 2) dups = true;
	if (occ.count(Bytes())) res.probes["empty-key"]++;
	if (s.adds.empty()) res.probes["empty-input"]++;
	res.nontrivial = out.chunks_spilled >= 3 && (s.check_spill ? out.dup_across_chunks : dups);
	return res;
}

extern const Engine engine_sorter = { "sorter", gen_sorter, exec_sorter };
