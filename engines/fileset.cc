// Engine `fileset`: histories over a simulated monotonic clock, a mutating
// setfile world, several dup'ed handles and live iterators.  Serves C07.
//
// Oracle (DESIGN.md C07): the model keeps the set C of candidates (R, pending)
// for "instant of the last shared reload / a reload_now is still owed".  Every
// operation that may or must reload transforms C; an iterator's observed
// output must be the merge (with its handle's filters) of the setfile version
// current at some candidate R, and stays pinned to it; each observation
// collapses C.  Early reloads are accepted, late ones are not.
#include "common.h"
#include "mergelib.h"
#include "../sim/seams.h"
#include <algorithm>
#include <fcntl.h>
#include <memory>
#include <set>
#include <sys/stat.h>
#include <unistd.h>

#define NEVER 4294967295u
#define MAXH 5
#define MAXS 6
#define MAXF 6

static Plan gen_fileset(const std::string &prop, const std::string &tier, uint64_t seed, uint64_t run)
{
	Plan p;
	p.engine = "fileset"; p.prop = prop; p.tier = tier; p.seed = seed; p.run = run;
	Rng r(seed, run, 0xf11e5e7);
	int nfiles = 1 + (int)r.below(MAXF);
	int fsize[MAXF] = { 0 };
	for (int i = 0; i < nfiles; i++) { fsize[i] = (int)r.below(31); p.op("file", { std::to_string(i), std::to_string(fsize[i]), std::to_string(r.below(100000)) }); }
	static const uint32_t ivals[] = { 0, 1, 5, 60, 600, NEVER };
	uint32_t iv0 = ivals[r.below(6)];
	p.seti("interval", iv0);
	p.seti("ffilter", r.chance(1, 4) ? 1 + r.below(2) : 0);
	p.seti("rfilter", r.chance(1, 5) ? 1 + r.below(2) : 0);
	p.seti("mfunc", r.chance(2, 3) ? 0 : 1 + r.below(3));
	p.seti("dupsort", r.chance(1, 4) ? 1 : 0);
	p.seti("relset", r.chance(1, 3) ? 1 : 0);	// merge function of the first handle: union / min / lcp / max
	auto newver = [&]() {
		std::vector<std::string> a{ std::to_string(r.below(3)) };	// 0 rewrite in place (new mtime), 1 rename (new inode, new mtime), 2 rename within the same second (new inode, SAME mtime)
		for (int i = 0; i < nfiles; i++) {
			uint64_t d = r.below(10);
			if (d < 5) a.push_back((r.chance(1, 3) ? (r.chance(1, 2) ? "a" : r.chance(1, 2) ? "b" : "c") : "r") + std::to_string(i));
			else if (d < 6 && r.chance(1, 4)) a.push_back("d" + std::to_string(i));
		}
		if (r.chance(1, 4)) a.push_back("m" + std::to_string(r.below(3)));
		if (r.chance(1, 5)) a.push_back("j");
		for (size_t i = a.size(); i > 2; i--) std::swap(a[i - 1], a[1 + r.below(i - 1)]);
		Op o; o.name = "newver"; o.a = a;
		p.ops.push_back(o);
	};
	newver();
	int nops = 5 + (int)r.below(56);
	bool halive[MAXH] = { true, false, false, false, false };
	uint32_t hint[MAXH] = { iv0, 0, 0, 0, 0 };
	int slot_h[MAXS] = { -1, -1, -1, -1, -1, -1 };
	auto pick_handle = [&]() { int h; do h = (int)r.below(MAXH); while (!halive[h]); return h; };
	auto key = [&]() { char t[32]; snprintf(t, sizeof t, "@k%d:%d", (int)r.below(200), r.chance(1, 2) ? 0 : (int)r.below(8)); return std::string(t); };
	// half of the plans are structured: change the set, force or wait for a reload, then read every handle's view
	// completely - so that each version of the setfile is compared in full, not only where random reads happen to fall;
	// now and then an iterator is left open across a change (it must keep its snapshot and hold reloads back)
	if (r.chance(1, 2)) {
		int cycles = 2 + (int)r.below(6);
		int pinned = -1;
		for (int c = 0; c < cycles; c++) {
			if (c > 0 && pinned < 0 && r.chance(1, 4)) {
				// a name leaves the set, is reloaded away, its file is replaced by a table on the other side of the
				// reader filters' threshold, and the name comes back
				int i = (int)r.below(nfiles), hh = pick_handle();
				std::vector<std::string> a{ std::to_string(r.below(3)) }, b{ std::to_string(r.below(3)) };
				for (int j = 0; j < nfiles; j++) { std::string t = (r.chance(1, 3) ? "a" : "r") + std::to_string(j); if (j != i) a.push_back(t); b.push_back(t); }
				Op o1; o1.name = "newver"; o1.a = a; p.ops.push_back(o1);
				p.op("reloadnow", { std::to_string(hh) });
				// a source operation: by now the reload has certainly happened (a lazy reload_now is admissible)
				p.op("open", { std::to_string(hh), "1", "0", "x", "x" }); p.op("next", { "1", "3" }); p.op("close", { "1" });
				fsize[i] = fsize[i] >= 12 ? (int)r.below(8) : 14 + (int)r.below(17);
				p.op("replace", { std::to_string(i), std::to_string(fsize[i]), std::to_string(r.below(100000)) });
				Op o2; o2.name = "newver"; o2.a = b; p.ops.push_back(o2);
			} else
			if (c > 0) newver();
			if (r.chance(1, 5)) {
				int nh = -1;
				for (int k = 0; k < MAXH; k++) if (!halive[k]) { nh = k; break; }
				if (nh >= 0) {
					uint32_t iv = ivals[r.below(6)];
					p.op("dup", { std::to_string(pick_handle()), std::to_string(nh), std::to_string(r.chance(1, 3) ? 1 + r.below(2) : 0), std::to_string(r.chance(1, 4) ? 1 + r.below(2) : 0), std::to_string(iv), std::to_string(r.chance(1, 2) ? 0 : 1 + r.below(3)), std::to_string(r.chance(1, 4) ? 1 : 0) });
					halive[nh] = true; hint[nh] = iv;
				}
			}
			int h = pick_handle();
			if (hint[h] != NEVER && r.chance(1, 3)) {
				char t[32]; snprintf(t, sizeof t, "%lld", ((long long)hint[h] + 2) * 1000000000LL + (long long)r.below(1000000000));
				p.op("advance", { t });
			} else p.op(r.chance(4, 5) ? "reloadnow" : "reload", { std::to_string(h) });
			if (pinned >= 0 && r.chance(1, 2)) { p.op("next", { std::to_string(pinned), "250" }); p.op("close", { std::to_string(pinned) }); pinned = -1; }
			for (int k = 0; k < MAXH; k++) {
				if (!halive[k] || r.chance(1, 6)) continue;
				int s = 1 + (int)r.below(MAXS - 1);
				if (s == pinned) continue;
				int kind = r.chance(3, 4) ? 0 : 2 + (int)r.below(2);
				p.op("open", { std::to_string(k), std::to_string(s), std::to_string(kind), kind == 0 ? "x" : key(), kind == 3 ? key() : "x" });
				p.op("next", { std::to_string(s), "250" });
				if (pinned < 0 && r.chance(1, 6)) pinned = s;	// stays open across the next change
				else p.op("close", { std::to_string(s) });
			}
			if (r.chance(1, 8)) {
				int alive = 0;
				for (int k = 0; k < MAXH; k++) alive += halive[k];
				int hd = pick_handle();
				if (alive >= 2) { p.op("destroy", { std::to_string(hd) }); halive[hd] = false; if (pinned >= 0) { p.op("close", { std::to_string(pinned) }); pinned = -1; } }
			}
		}
		p.seti("structured", 1);
		return p;
	}
	for (int i = 0; i < nops; i++) {
		uint64_t d = r.below(100);
		int h = pick_handle();
		if (d < 22) {
			// advance: 0, sub-second, < interval, interval +- 1 s, >> interval
			uint32_t iv = hint[h] == NEVER ? 60 : hint[h];
			uint64_t k = r.below(8);
			long long ns = k == 0 ? 0 : k == 1 ? (long long)r.below(999999999) : k == 2 ? (long long)(iv * 500000000ULL) :
			    k == 3 ? (long long)iv * 1000000000LL - 1000000000LL + (long long)r.below(1000000000) :
			    k == 4 ? (long long)iv * 1000000000LL + (long long)r.below(2000000000) :
			    k == 5 ? ((long long)iv + 2) * 1000000000LL + (long long)r.below(1000000000) :
			    k == 6 ? ((long long)iv * 3 + 7) * 1000000000LL : (long long)r.below(5000000000ULL);
			if (ns < 0) ns = 0;
			p.op("advance", { std::to_string(ns) });
		} else if (d < 36) newver();
		else if (d < 42) p.op("reload", { std::to_string(h) });
		else if (d < 52) p.op("reloadnow", { std::to_string(h) });
		else if (d < 70) {
			int s = (int)r.below(MAXS);
			int kind = r.chance(1, 2) ? 0 : (int)r.below(4);
			p.op("open", { std::to_string(h), std::to_string(s), std::to_string(kind), key(), kind == 3 ? key() : "x" });
			slot_h[s] = h;
		} else if (d < 82) p.op("next", { std::to_string(r.below(MAXS)), std::to_string(r.chance(1, 2) ? 1 : 1 + r.below(40)) });
		else if (d < 86) p.op("seek", { std::to_string(r.below(MAXS)), r.chance(1, 3) ? "@cur:0" : key() });
		else if (d < 92) { int s = (int)r.below(MAXS); p.op("close", { std::to_string(s) }); slot_h[s] = -1; }
		else if (d < 97) {
			int nh = -1;
			for (int k = 0; k < MAXH; k++) if (!halive[k]) { nh = k; break; }
			if (nh < 0) continue;
			uint32_t iv = ivals[r.below(6)];
			p.op("dup", { std::to_string(h), std::to_string(nh), std::to_string(r.chance(1, 3) ? 1 + r.below(2) : 0), std::to_string(r.chance(1, 4) ? 1 + r.below(2) : 0), std::to_string(iv), std::to_string(r.chance(1, 2) ? 0 : 1 + r.below(3)), std::to_string(r.chance(1, 4) ? 1 : 0) });
			halive[nh] = true; hint[nh] = iv;
		} else {
			int alive = 0;
			for (int k = 0; k < MAXH; k++) alive += halive[k];
			if (alive < 2) continue;
			p.op("destroy", { std::to_string(h) });
			halive[h] = false;
			for (int s = 0; s < MAXS; s++) if (slot_h[s] == h) slot_h[s] = -1;
		}
	}
	return p;
}

// ----------------------------------------------------------------- executor
namespace {

struct FileInfo { bool made = false; mfmt::Entries ents; bool deleted = false; };
struct Version { int64_t t; std::vector<std::pair<int, bool>> listed; /* (file idx, absolute) */ std::vector<bool> exists; bool junk = false; };
struct Handle {
	mtbl_fileset *fs = nullptr;
	uint32_t interval = 60;
	int ffilter = 0, rfilter = 0;
	int mfunc = 0;		// each handle folds with its own merge function
	bool alive = false;
};
struct Cand { int64_t R; bool none; bool pending; bool operator<(const Cand &o) const { return std::tie(none, R, pending) < std::tie(o.none, o.R, o.pending); } };
struct Cursor { int ver; std::shared_ptr<TableModel> mp; TableModel::const_iterator pos; bool failed = false; };

struct Slot {
	bool open = false;
	int h = -1, kind = 0;
	Bytes k0, k1, cur;
	mtbl_iter *it = nullptr;
	std::vector<Cursor> cur_by_ver;
	bool have = false; const uint8_t *kp, *vp; size_t kl, vl; Bytes kc, vc;
};

static int file_index_of(const char *fname)
{
	const char *b = strrchr(fname, '/');
	b = b ? b + 1 : fname;
	if (b[0] != 'f') return -1;
	return atoi(b + 1);
}
static bool ffilter_cb(const char *fname, void *clos)
{
	int mode = (int)(intptr_t)clos, i = file_index_of(fname);
	return mode == 1 ? (i % 2 == 0) : (i % 2 == 1);
}
static bool rfilter_cb(struct mtbl_reader *r, void *clos)
{
	int mode = (int)(intptr_t)clos;
	uint64_t n = mtbl_metadata_count_entries(mtbl_reader_metadata(r));
	return mode == 1 ? n >= 10 : n < 10;
}

struct World {
	RunResult &res;
	std::string dir, setpath, altdir;
	FileInfo files[MAXF];
	std::vector<Version> vers;
	Handle hs[MAXH];
	Slot slots[MAXS];
	std::set<Cand> C;
	int n_iters = 0;
	long mtime_sec = 0;
	std::vector<Bytes> allkeys;
	std::set<int> versions_seen;
	std::set<int> handles_opened;
	World(RunResult &r) : res(r) {}

	int64_t now() { int64_t s, ns; sim_clock_now(&s, &ns); return s * 1000000000LL + ns; }
	int version_at(int64_t R)
	{
		int v = -1;
		for (size_t i = 0; i < vers.size(); i++) if (vers[i].t <= R) v = (int)i;
		return v;
	}
	bool passes(const Handle &h, int fi)
	{
		if (h.ffilter && !((h.ffilter == 1) ? (fi % 2 == 0) : (fi % 2 == 1))) return false;
		size_t n = files[fi].ents.size();
		if (h.rfilter && !((h.rfilter == 1) ? n >= 10 : n < 10)) return false;
		return true;
	}
	TableModel view(int ver, const Handle &h)
	{
		TableModel m = new_model();
		if (ver < 0) return m;
		for (auto &lf : vers[ver].listed) {
			int fi = lf.first;
			if (!vers[ver].exists[fi] || !passes(h, fi)) continue;
			for (auto &kv : files[fi].ents) {
				auto f = m.find(kv.first);
				if (f == m.end()) m[kv.first] = kv.second; else f->second = fold_values(h.mfunc, f->second, kv.second);
			}
		}
		return m;
	}

	// ---- candidate transformations
	void op_may_reload(const Handle &h, bool source_op, bool explicit_now)
	{
		if (n_iters > 0) {
			if (explicit_now) { std::set<Cand> n; for (auto c : C) { c.pending = true; n.insert(c); } C = n; res.probes["reload_now-deferred"]++; }
			return;
		}
		int64_t t = now();
		std::set<Cand> n;
		bool any_must_time = false;
		for (auto c : C) {
			if (explicit_now) { n.insert(Cand{ t, false, false }); n.insert(Cand{ c.R, c.none, true }); continue; }
			if (c.none) { n.insert(Cand{ t, false, false }); continue; }	// never loaded: the first use loads
			if (c.pending) {
				n.insert(Cand{ t, false, false });
				if (!source_op) n.insert(c);	// owed by the first source operation at the latest
				continue;
			}
			bool must = h.interval != NEVER && (t - c.R) >= ((int64_t)h.interval + 1) * 1000000000LL;
			if (must) { n.insert(Cand{ t, false, false }); any_must_time = true; }
			else { n.insert(c); n.insert(Cand{ t, false, false }); }	// early reloads are accepted
		}
		if (any_must_time) res.probes["time-based-reload-mandatory"]++;
		C = n;
	}
	void collapse_to(const std::set<int> &vers_ok)
	{
		std::set<Cand> n;
		for (auto &c : C) if (vers_ok.count(c.none ? -1 : version_at(c.R))) n.insert(c);
		C = n;
	}
};

static bool in_bound(const Slot &s, const Bytes &key)
{
	switch (s.kind) {
	case 1: return key == s.k0;
	case 2: return has_prefix(key, s.k0);
	case 3: return mfmt::cmp(key, s.k1) <= 0;
	default: return true;
	}
}

} // namespace

static RunResult exec_fileset(const Plan &p)
{
	RunResult res;
	World w(res);
	w.dir = scratch_dir() + "/fs";
	mkdir(w.dir.c_str(), 0700);
	w.setpath = w.dir + "/tables.fileset";
	w.altdir = scratch_dir() + "/a-link-to-the-directory-of-the-tables";
	if (symlink("fs", w.altdir.c_str()) != 0 && errno != EEXIST) { res.fail("INFRA", "symlink", "cannot link " + w.altdir); return res; }
	// half of the plans open the fileset through a relative name of the setfile (from inside its directory)
	if (p.geti("relset", 0)) {
		if (chdir(w.dir.c_str()) != 0) { res.fail("INFRA", "chdir", "cannot enter " + w.dir); return res; }
		w.setpath = "tables.fileset";
		res.probes["setfile-opened-by-relative-name"]++;
	}
	write_file(w.dir + "/junk.mtbl", "this is not a table, it only looks like one by name");
	sim_clock_set(100000, 0);
	int64_t t_start = w.now();
	mtbl_fileset_options *fo0 = nullptr;

	auto resolve = [&](const std::string &tok, const Slot *s) {
		if (tok.empty() || tok[0] != '@') return spec_bytes(tok);
		size_t colon = tok.find(':');
		int m = colon == std::string::npos ? 0 : atoi(tok.c_str() + colon + 1);
		Bytes k;
		if (tok.compare(0, 4, "@cur") == 0) k = s ? s->cur : Bytes();
		else if (tok.compare(0, 2, "@k") == 0) k = w.allkeys.empty() ? Bytes() : w.allkeys[(size_t)atoi(tok.c_str() + 2) % w.allkeys.size()];
		switch (m) {
		case 1: if (!k.empty()) k.pop_back(); break;
		case 2: k.push_back('\0'); break;
		case 3: k.push_back((char)0xff); break;
		case 4: if (!k.empty() && (unsigned char)k.back() > 0) { k.back() = (char)((unsigned char)k.back() - 1); k.push_back((char)0xff); } break;
		case 5: if (!k.empty() && (unsigned char)k.back() < 0xff) k.back() = (char)((unsigned char)k.back() + 1); break;
		case 6: k = k.substr(0, (k.size() + 1) / 2); break;
		case 7: k.push_back('a'); break;
		}
		return k;
	};
	auto make_opts = [&](int ff, int rf, uint32_t iv, int mf, bool ds) {
		mtbl_fileset_options *fo = mtbl_fileset_options_init();
		mtbl_fileset_options_set_merge_func(fo, merge_union_cb, stateless_merge_ctx(mf));
		// a dupsort function next to a merge function only fixes the order in which equal keys are folded; the folds are
		// commutative, so the expected view is the same
		if (ds) { mtbl_fileset_options_set_dupsort_func(fo, dupsort_bytes_cb, nullptr); res.probes["handle-with-dupsort"]++; }
		mtbl_fileset_options_set_reload_interval(fo, iv);
		if (ff) mtbl_fileset_options_set_filename_filter_func(fo, ffilter_cb, (void *)(intptr_t)ff);
		if (rf) mtbl_fileset_options_set_reader_filter_func(fo, rfilter_cb, (void *)(intptr_t)rf);
		return fo;
	};
	auto buffers_ok = [&](Slot &s) {
		if (!s.have) return true;
		s.have = false;
		return s.kl == s.kc.size() && s.vl == s.vc.size() && (!s.kl || !memcmp(s.kp, s.kc.data(), s.kl)) && (!s.vl || !memcmp(s.vp, s.vc.data(), s.vl));
	};
	auto close_slot = [&](Slot &s) {
		if (!s.open) return;
		if (!buffers_ok(s)) res.fail("MODEL", "FILESET-BUFFER", "buffers handed out by next() changed before the iterator was closed");
		mtbl_iter_destroy(&s.it);
		w.n_iters--;
		Handle &h = w.hs[s.h];
		s = Slot();
		if (w.n_iters == 0) w.op_may_reload(h, false, false);	// closing the last iterator may run a deferred reload
	};

	size_t opi = 0;
	bool inited = false;
	for (auto &o : p.ops) {
		opi++;
		if (res.viol) break;
		sim_clock_advance(0, 1000);	// operations happen at distinct instants
		if (o.name == "file") {
			int i = (int)(o.argi(0) % MAXF);
			if (w.files[i].made) continue;
			Rng r((uint64_t)o.argi(2), 0xf1, 2);
			KeyGen kg(r);
			TableModel m = new_model();
			size_t n = (size_t)o.argi(1);
			for (size_t k = 0; k < n; k++) { Bytes key = r.chance(1, 3) && !w.allkeys.empty() ? w.allkeys[r.below(w.allkeys.size())] : kg.key(); m[key] = "f" + std::to_string(i) + "\n"; }
			w.files[i].ents.assign(m.begin(), m.end());
			w.files[i].made = true;
			for (auto &kv : m) w.allkeys.push_back(kv.first);
			write_table(w.dir + "/f" + std::to_string(i) + ".mtbl", w.files[i].ents, (int)r.below(6), 1 + r.below(6), 1024);
		} else if (o.name == "replace") {
			// the table file of a name that is certainly not loaded at the moment (dropped from the setfile, and a
			// reload has happened since) is replaced by another table; when the name comes back it is loaded anew
			int i = (int)(o.argi(0) % MAXF);
			bool maybe_loaded = w.n_iters > 0;
			for (auto &c : w.C) {
				if (c.none) continue;
				int v = w.version_at(c.R);
				if (v >= 0) for (auto &lf : w.vers[v].listed) if (lf.first == i) maybe_loaded = true;
			}
			if (!w.files[i].made || maybe_loaded) { res.unjudged["replace-skipped-file-may-be-loaded"]++; continue; }
			Rng r((uint64_t)o.argi(2), 0xf2, 2);
			KeyGen kg(r);
			TableModel m = new_model();
			size_t n = (size_t)o.argi(1);
			for (size_t k = 0; k < n; k++) { Bytes key = r.chance(1, 3) && !w.allkeys.empty() ? w.allkeys[r.below(w.allkeys.size())] : kg.key(); m[key] = "g" + std::to_string(i) + "\n"; }
			w.files[i].ents.assign(m.begin(), m.end());
			for (auto &kv : m) w.allkeys.push_back(kv.first);
			std::string fp = w.dir + "/f" + std::to_string(i) + ".mtbl", tp = fp + ".new";
			write_table(tp, w.files[i].ents, (int)r.below(6), 1 + r.below(6), 1024);
			rename(tp.c_str(), fp.c_str());
			w.files[i].deleted = false;
			res.probes["table-file-replaced-while-not-listed"]++;
		} else if (o.name == "newver") {
			Version v;
			v.t = w.now();
			Bytes sf;
			for (size_t a = 1; a < o.a.size(); a++) {
				const std::string &tk = o.a[a];
				if (tk.empty()) continue;
				int i = atoi(tk.c_str() + 1) % MAXF;
				if (tk[0] == 'r' || tk[0] == 'a' || tk[0] == 'b' || tk[0] == 'c') {
					if (!w.files[i].made) continue;
					bool dupl = false;
					for (auto &lf : v.listed) if (lf.first == i) dupl = true;
					if (dupl) continue;	// duplicate lines are not generated (unspecified)
					v.listed.push_back({ i, tk[0] != 'r' });
					// absolute names come in three spellings: inside the setfile's directory, through ".." and through a
					// symbolic link to it whose name has another length (the same file every time)
					std::string pre = tk[0] == 'r' ? std::string() : tk[0] == 'a' ? w.dir + "/" : tk[0] == 'b' ? w.dir + "/../fs/" : w.altdir + "/";
					if (tk[0] == 'b' || tk[0] == 'c') res.probes["absolute-name-outside-the-setfile-directory"]++;
					sf += pre + "f" + std::to_string(i) + ".mtbl\n";
				} else if (tk[0] == 'd') {
					if (w.files[i].made && !w.files[i].deleted) { unlink((w.dir + "/f" + std::to_string(i) + ".mtbl").c_str()); w.files[i].deleted = true; res.probes["file-deleted"]++; }
				} else if (tk[0] == 'm') { sf += "missing" + std::to_string(i) + ".mtbl\n"; res.probes["setfile-names-missing-file"]++; }
				else if (tk[0] == 'j') { sf += "junk.mtbl\n"; v.junk = true; res.probes["setfile-names-non-table"]++; }
			}
			for (int i = 0; i < MAXF; i++) v.exists.push_back(w.files[i].made && !w.files[i].deleted);
			int vn = (int)w.vers.size();
			long long how = o.argi(0) % 3;
			if (how >= 1 && vn > 0) {	// replace by rename: new inode
				std::string tmp = w.setpath + ".new";
				write_file(tmp, sf);
				rename(tmp.c_str(), w.setpath.c_str());
				res.probes["setfile-replaced-by-rename"]++;
			} else write_file(w.setpath, sf);
			// mtime in whole seconds: strictly increasing, except for a rename within the same second,
			// which only the inode number reveals
			if (how == 2 && vn > 0) res.probes["setfile-renamed-within-the-same-second"]++; else w.mtime_sec++;
			struct timespec ts[2] = { { 2000000 + w.mtime_sec, 0 }, { 2000000 + w.mtime_sec, 0 } };
			utimensat(AT_FDCWD, w.setpath.c_str(), ts, 0);
			w.vers.push_back(v);
			if (!inited) {
				w.hs[0].interval = (uint32_t)p.geti("interval", 60);
				w.hs[0].ffilter = (int)p.geti("ffilter", 0); w.hs[0].rfilter = (int)p.geti("rfilter", 0);
				w.hs[0].mfunc = (int)(p.geti("mfunc", 0) % 4);
				fo0 = make_opts(w.hs[0].ffilter, w.hs[0].rfilter, w.hs[0].interval, w.hs[0].mfunc, p.geti("dupsort", 0) != 0);
				w.hs[0].fs = mtbl_fileset_init(w.setpath.c_str(), fo0);
				mtbl_fileset_options_destroy(&fo0);
				w.hs[0].alive = true;
				w.C.insert(Cand{ 0, true, true });
				inited = true;
			}
		} else if (!inited) continue;
		else if (o.name == "advance") {
			long long ns = o.argi(0);
			if (ns > 0) sim_clock_advance(ns / 1000000000LL, ns % 1000000000LL);
		} else if (o.name == "reload" || o.name == "reloadnow") {
			Handle &h = w.hs[o.argi(0) % MAXH];
			if (!h.alive) continue;
			bool nowop = o.name == "reloadnow";
			w.op_may_reload(h, false, nowop);
			if (nowop) mtbl_fileset_reload_now(h.fs); else mtbl_fileset_reload(h.fs);
			res.ev.u(nowop ? 31 : 30);
			res.probes[nowop ? "reload_now" : "reload"]++;
		} else if (o.name == "dup") {
			Handle &src = w.hs[o.argi(0) % MAXH];
			Handle &dst = w.hs[o.argi(1) % MAXH];
			if (!src.alive || dst.alive) continue;
			dst.ffilter = (int)(o.argi(2) % 3); dst.rfilter = (int)(o.argi(3) % 3); dst.interval = (uint32_t)o.argi(4);
			dst.mfunc = (int)(o.argi(5) % 4);
			if (dst.mfunc != src.mfunc) res.probes["dup-with-other-merge-function"]++;
			mtbl_fileset_options *fo = make_opts(dst.ffilter, dst.rfilter, dst.interval, dst.mfunc, o.argi(6) != 0);
			dst.fs = mtbl_fileset_dup(src.fs, fo);
			mtbl_fileset_options_destroy(&fo);
			dst.alive = true;
			res.probes["dup"]++;
		} else if (o.name == "destroy") {
			int hi = (int)(o.argi(0) % MAXH);
			Handle &h = w.hs[hi];
			int alive = 0;
			for (auto &x : w.hs) alive += x.alive;
			if (!h.alive || alive < 2) continue;
			for (auto &s : w.slots) if (s.open && s.h == hi) close_slot(s);	// an iterator is closed before its own handle
			mtbl_fileset_destroy(&h.fs);
			h.alive = false;
			res.probes[hi == 0 ? "original-handle-destroyed-first" : "dup-destroyed"]++;
		} else if (o.name == "open") {
			int hi = (int)(o.argi(0) % MAXH);
			Handle &h = w.hs[hi];
			if (!h.alive) continue;
			Slot &s = w.slots[o.argi(1) % MAXS];
			close_slot(s);
			w.op_may_reload(h, true, false);
			s.h = hi; s.kind = (int)(o.argi(2) & 3);
			s.k0 = s.kind == 0 ? Bytes() : resolve(o.arg(3), nullptr);
			s.k1 = s.kind == 3 ? resolve(o.arg(4), nullptr) : Bytes();
			const mtbl_source *src = mtbl_fileset_source(h.fs);
			{
				TmpKey a(s.k0), b(s.k1);	// gone when the call returns
				switch (s.kind) {
				case 1: s.it = mtbl_source_get(src, a.p, a.n); break;
				case 2: s.it = mtbl_source_get_prefix(src, a.p, a.n); break;
				case 3: s.it = mtbl_source_get_range(src, a.p, a.n, b.p, b.n); break;
				default: s.it = mtbl_source_iter(src);
				}
			}
			s.open = true; s.cur = s.k0;
			w.n_iters++;
			w.handles_opened.insert(hi);
			if (w.n_iters > 1) res.probes["open-while-iterators-live"]++;
			std::set<int> vs;
			for (auto &c : w.C) vs.insert(c.none ? -1 : w.version_at(c.R));
			if (vs.size() > 1) res.probes["open-with-several-admissible-versions"]++; else res.probes["open-with-one-admissible-version"]++;
			for (int v : vs) {
				s.cur_by_ver.emplace_back();
				Cursor &c = s.cur_by_ver.back();
				c.ver = v; c.mp = std::make_shared<TableModel>(w.view(v, h));
			}
			for (auto &c : s.cur_by_ver) c.pos = s.kind == 0 ? c.mp->begin() : c.mp->lower_bound(s.k0);
			res.ev.u(40 + s.kind); res.ev.b(s.k0);
		} else if (o.name == "next" || o.name == "seek") {
			Slot &s = w.slots[o.argi(0) % MAXS];
			if (!s.open) continue;
			if (!buffers_ok(s)) res.fail("MODEL", "FILESET-BUFFER", "op " + std::to_string(opi) + ": buffers changed before the next call on that iterator");
			if (o.name == "seek") {
				Bytes k = resolve(o.arg(1), &s);
				if (s.kind != 0 && mfmt::cmp(k, s.k0) < 0) continue;
				{ TmpKey t(k); (void)!mtbl_iter_seek(s.it, t.p, t.n); }
				for (auto &c : s.cur_by_ver) { c.pos = c.mp->lower_bound(k); c.failed = false; }
				s.cur = k;
				res.ev.u(50); res.ev.b(k);
				continue;
			}
			size_t n = (size_t)o.argi(1, 1);
			for (size_t i = 0; i < n && !res.viol; i++) {
				const uint8_t *k, *v; size_t kl, vl;
				mtbl_res r = mtbl_iter_next(s.it, &k, &kl, &v, &vl);
				Bytes gk, gv;
				if (r == mtbl_res_success) { gk.assign((const char *)k, kl); gv.assign((const char *)v, vl); s.have = true; s.kp = k; s.vp = v; s.kl = kl; s.vl = vl; s.kc = gk; s.vc = gv; s.cur = gk; }
				res.ev.u(r == mtbl_res_success); res.ev.b(gk); res.ev.b(gv);
				if (getenv("MTBLSIM_DEBUG")) { fprintf(stderr, "next slot -> %d %s\n", r, short_repr(gk).c_str()); for (auto &c : s.cur_by_ver) fprintf(stderr, "   ver %d failed=%d pos=%s size=%zu\n", c.ver, c.failed, c.pos == c.mp->end() ? "END" : short_repr(c.pos->first).c_str(), c.mp->size()); }
				std::vector<Cursor> keep;
				std::string why;
				for (auto &c : s.cur_by_ver) {
					bool expect_ok = !c.failed && c.pos != c.mp->end() && in_bound(s, c.pos->first);
					if (!expect_ok) {
						c.failed = true;
						if (r != mtbl_res_success) keep.push_back(c);
						else why += " [version " + std::to_string(c.ver) + ": expects end of results]";
					} else if (r == mtbl_res_success && gk == c.pos->first && gv == c.pos->second) { ++c.pos; keep.push_back(c); }
					else {
						why += " [version " + std::to_string(c.ver) + ": expects " + short_repr(c.pos->first) + " -> " + short_repr(c.pos->second) + "]";
						if (r == mtbl_res_success) {}
					}
				}
				if (keep.empty()) {
					bool single = s.cur_by_ver.size() == 1;
					res.fail("MODEL", r == mtbl_res_success ? (single ? "FILESET-wrong-entry" : "FILESET-no-admissible-version") : "FILESET-missing-entry",
						 "op " + std::to_string(opi) + ": iterator (kind " + std::to_string(s.kind) + " k0=" + short_repr(s.k0) + " k1=" + short_repr(s.k1) + ") on handle " + std::to_string(s.h) + " returned " + (r == mtbl_res_success ? short_repr(gk) + " -> " + short_repr(gv) : std::string("failure")) +
						 "; admissible setfile versions:" + why);
					break;
				}
				if (keep.size() != s.cur_by_ver.size()) {
					s.cur_by_ver = keep;
					std::set<int> ok;
					for (auto &c : keep) ok.insert(c.ver);
					w.collapse_to(ok);
					// other live iterators share the same loaded set: drop their dead versions too
					for (auto &t : w.slots) if (t.open && &t != &s) {
						std::vector<Cursor> k2;
						for (auto &c : t.cur_by_ver) if (ok.count(c.ver)) k2.push_back(c);
						if (k2.empty()) res.fail("MODEL", "FILESET-iterators-disagree", "op " + std::to_string(opi) + ": two live iterators can only be explained by different loaded file sets");
						else t.cur_by_ver = k2;
					}
				}
				if (r == mtbl_res_success) for (auto &c : s.cur_by_ver) w.versions_seen.insert(c.ver);
			}
		} else if (o.name == "close") {
			close_slot(w.slots[o.argi(0) % MAXS]);
		}
	}
	for (auto &s : w.slots) close_slot(s);
	for (auto &h : w.hs) if (h.alive) { mtbl_fileset_destroy(&h.fs); h.alive = false; }
	res.sim_ns = (uint64_t)(w.now() - t_start);
	res.nontrivial = w.handles_opened.size() >= 2 && w.vers.size() >= 2 && w.versions_seen.size() >= 1;
	if (w.vers.size() >= 2) res.probes["two-or-more-versions"]++;
	return res;
}

extern const Engine engine_fileset = { "fileset", gen_fileset, exec_fileset };
