// mtblsim: one binary, all engines.
//   mtblsim run --engine E --prop P --tier T --seed S --from A --to B [--pending FILE]
//   mtblsim gen --engine E --prop P --tier T --seed S --run I
//   mtblsim replay FILE [-v]
#include "common.h"
#include "tablelib.h"
#include "../sim/simsched.h"
#include <signal.h>
#include <sys/personality.h>
#include <sys/time.h>
#include <unistd.h>

static const Engine *const engines[] = { &engine_table, &engine_merge, &engine_sorter, &engine_fileset,
	&engine_corrupt, &engine_sched, &engine_leak, &engine_wfault };

const Engine *find_engine(const std::string &name)
{
	for (auto e : engines) if (name == e->name) return e;
	return nullptr;
}

// sanitizer defaults: a report ends the process with a recognisable status
extern "C" __attribute__((used, visibility("default"))) const char *__asan_default_options()
{
	return "exitcode=77:halt_on_error=1:detect_leaks=0:abort_on_error=0:allocator_may_return_null=1:detect_stack_use_after_return=0";
}
extern "C" __attribute__((used, visibility("default"))) const char *__ubsan_default_options()
{
	return "halt_on_error=1:exitcode=77:print_stacktrace=1";
}
extern "C" __attribute__((used, visibility("default"))) const char *__tsan_default_options()
{
	return "exitcode=77:halt_on_error=1:report_signal_unsafe=0:history_size=4";
}

int g_verbose = 0;

// watchdog on CPU time (immune to machine load): a run that spins is reported as HANG
static void on_cpu_limit(int)
{
	static const char msg[] = "SCHED-VERDICT HANG run exceeded its CPU-time limit (library code is spinning)\n";
	(void)!write(1, msg, sizeof msg - 1);
	_exit(80);
}
static int cpu_limit(const Plan &p)
{
	for (auto &o : p.ops) if (o.name.compare(0, 5, "sweep") == 0 || o.name.compare(0, 4, "huge") == 0) return 900;	// exhaustive sweeps are legitimately long
	return 30;
}
// ... and a wall-clock backstop ten times as long for a run that is blocked without using CPU (a thread waiting in the
// kernel on something the scheduler does not own); runs take milliseconds, so machine load cannot trip it
static void on_wall_limit(int)
{
	static const char msg[] = "SCHED-VERDICT HANG run made no progress within its wall-clock limit (blocked outside the scheduler)\n";
	(void)!write(1, msg, sizeof msg - 1);
	_exit(80);
}
static void watchdog(int seconds)
{
	struct itimerval it = { { 0, 0 }, { seconds, 0 } };
	setitimer(ITIMER_PROF, &it, nullptr);
	struct itimerval wall = { { 0, 0 }, { seconds * 10, 0 } };
	setitimer(ITIMER_REAL, &wall, nullptr);
}

static const char *arg(int argc, char **argv, const char *name, const char *def)
{
	for (int i = 2; i + 1 < argc; i++) if (!strcmp(argv[i], name)) return argv[i + 1];
	return def;
}

int main(int argc, char **argv)
{
	if (argc < 2) { fprintf(stderr, "usage: mtblsim run|gen|replay ...\n"); return 2; }
	// address-space layout is a source of nondeterminism for wild reads: switch it off and re-exec
	{
		int pers = personality(0xffffffff);
		if (pers != -1 && !(pers & ADDR_NO_RANDOMIZE) && !getenv("MTBLSIM_NOREEXEC")) {
			personality(pers | ADDR_NO_RANDOMIZE);
			setenv("MTBLSIM_NOREEXEC", "1", 1);
			execv("/proc/self/exe", argv);
		}
	}
	setvbuf(stdout, nullptr, _IOLBF, 0);
	{ static char warm[] = "MTBL_READER_MADVISE_RANDOM="; putenv(warm); }	// the slot in environ exists from the start (see make_reader_options)
	signal(SIGPROF, on_cpu_limit);
	signal(SIGALRM, on_wall_limit);
	if (!mfmt::selftest()) { fprintf(stderr, "INFRA-ERROR independent codec self-test failed\n"); return 2; }
	std::string cmd = argv[1];
	if (cmd == "replay") {
		if (argc < 3) return 2;
		for (int i = 3; i < argc; i++) if (!strcmp(argv[i], "-v")) g_verbose = 1;
		bool ok;
		Bytes text = read_file(argv[2], &ok);
		Plan p; std::string err;
		if (!ok || !Plan::parse(text, p, &err)) { fprintf(stderr, "INFRA-ERROR cannot read plan %s: %s\n", argv[2], err.c_str()); return 2; }
		const Engine *e = find_engine(p.engine);
		if (!e) { fprintf(stderr, "INFRA-ERROR unknown engine %s\n", p.engine.c_str()); return 2; }
		watchdog(cpu_limit(p));
		optvar_begin(p.seed * 1000003ULL + p.run);
		RunResult r = e->exec(p);
		(void)!chdir("/");	// some plans work from inside their scratch directory
		watchdog(0);
		printf("%s\n", r.line(p.run).c_str());
		fflush(stdout);
		scratch_remove();
		return r.viol ? 1 : 0;
	}
	const Engine *e = find_engine(arg(argc, argv, "--engine", ""));
	if (!e) { fprintf(stderr, "INFRA-ERROR unknown engine\n"); return 2; }
	std::string prop = arg(argc, argv, "--prop", ""), tier = arg(argc, argv, "--tier", "quick");
	uint64_t seed = strtoull(arg(argc, argv, "--seed", "1"), nullptr, 10);
	if (cmd == "gen") {
		uint64_t run = strtoull(arg(argc, argv, "--run", "0"), nullptr, 10);
		Plan p = e->gen(prop, tier, seed, run);
		fputs(p.str().c_str(), stdout);
		return 0;
	}
	if (cmd != "run") return 2;
	uint64_t from = strtoull(arg(argc, argv, "--from", "0"), nullptr, 10);
	uint64_t to = strtoull(arg(argc, argv, "--to", "1"), nullptr, 10);
	const char *pending = arg(argc, argv, "--pending", nullptr);
	const char *violdir = arg(argc, argv, "--violdir", nullptr);
	int samples = atoi(arg(argc, argv, "--samples", "0"));
	for (uint64_t i = from; i < to; i++) {
		Plan p = e->gen(prop, tier, seed, i);
		std::string text = p.str();
		if (pending) write_file(pending, text);
		// execute from the parsed text, never from the generator's in-memory state
		Plan q; Plan::parse(text, q);
		watchdog(cpu_limit(q));
		optvar_begin(q.seed * 1000003ULL + q.run);
		RunResult r = e->exec(q);
		(void)!chdir("/");
		watchdog(0);
		printf("%s\n", r.line(i).c_str());
		if (r.viol && violdir) {
			char t[512]; snprintf(t, sizeof t, "%s/viol.%llu.plan", violdir, (unsigned long long)i);
			write_file(t, text);
		}
		if (samples > 0 && violdir && r.nontrivial && !r.viol) {
			samples--;
			char t[512]; snprintf(t, sizeof t, "%s/sample.%llu.plan", violdir, (unsigned long long)i);
			write_file(t, text);
		}
		scratch_clean();
	}
	printf("DONE from=%llu to=%llu\n", (unsigned long long)from, (unsigned long long)to);
	fflush(stdout);
	if (pending) unlink(pending);
	scratch_remove();
	return 0;
}
