// Engine `sched`: everything that involves more than one thread, under the
// deterministic scheduler (sim/sched.c).
//   layer api    : threadpool.h internals driven directly (jobs are tagged no-ops)
//   layer public : 1..3 caller tasks, each a pooled writer / pooled sorter /
//                  reader client, sharing one pool or not
// Serves C13 (asan variant: results, hangs, worker count) and C14 (tsan
// variant: happens-before race detection along the simulated schedules).
#include "common.h"
#include "tablelib.h"
#include "sorterlib.h"
#include "../sim/simsched.h"
#include <algorithm>
#include <fcntl.h>
#include <sys/stat.h>
#include <unistd.h>
extern "C" {
#include "threadpool.h"
}

#define MAXTASK 4

// ---------------------------------------------------------------- generator
static void gen_task_adds(Plan &p, Rng &r, int t, size_t n, bool sorted, int big_pm)
{
	KeyGen kg(r);
	std::vector<Bytes> keys;
	for (size_t i = 0; i < n; i++) keys.push_back(r.chance(1, 6) && !keys.empty() ? keys[r.below(keys.size())] : kg.key());
	if (sorted) {
		std::sort(keys.begin(), keys.end(), bytes_less);
		keys.erase(std::unique(keys.begin(), keys.end()), keys.end());
	}
	for (auto &k : keys) p.op("add", { std::to_string(t), spec_of(k), spec_of(kg.value(big_pm)) });
}

static Plan gen_sched(const std::string &prop, const std::string &tier, uint64_t seed, uint64_t run)
{
	Plan p;
	p.engine = "sched"; p.prop = prop; p.tier = tier; p.seed = seed; p.run = run;
	Rng r(seed, run, 0x5c4ed + (uint64_t)atoi(prop.c_str() + 1));
	bool c14 = prop == "C14";
	uint64_t d = r.below(100);
	std::string layer = d < (c14 ? 20u : 35u) ? "api" : "public";
	p.set("layer", layer);
	p.seti("pool", layer == "api" ? (r.chance(1, 10) ? 5 + r.below(4) : 1 + r.below(4)) : (r.chance(1, 10) ? 0 : r.chance(1, 10) ? 5 + r.below(4) : 1 + r.below(4)));
	p.seti("shared", r.chance(3, 4) ? 1 : 0);
	p.set("sched", sched_cfg_gen(r, layer == "api" ? 400 : 1500));
	int ntask = 1 + (int)r.below(3);
	if (layer == "api") {
		for (int t = 0; t < ntask; t++) {
			p.op("task", { std::to_string(t), "api", std::to_string(r.below(2)) /* ordered */ });
			int nj = (int)r.below(13);
			for (int j = 0; j < nj; j++) p.op("job", { std::to_string(t), std::to_string(r.chance(1, 2) ? 0 : r.below(6)) });
		}
		return p;
	}
	bool readers = c14 && r.chance(2, 5);
	if (readers) {
		// one shared reader, 2..4 client tasks with their own iterators
		ntask = 2 + (int)r.below(3);
		p.seti("rd_comp", r.below(6));
		p.seti("rd_verify", r.below(2));
		p.seti("rd_enc", r.below(2));
		gen_task_adds(p, r, 9, 10 + r.below(150), true, r.chance(1, 2) ? 60 : 200);
		for (int t = 0; t < ntask; t++) {
			p.op("task", { std::to_string(t), "reader" });
			int nops = 4 + (int)r.below(30);
			bool open[4] = { false, false, false, false };
			for (int i = 0; i < nops; i++) {
				int s = (int)r.below(2);
				uint64_t e = r.below(100);
				char tk[32]; snprintf(tk, sizeof tk, "@k%d:%d", (int)r.below(300), (int)r.below(8));
				if (e < 15) p.op("rop", { std::to_string(t), "q", std::to_string(1 + r.below(3)), tk, "@end" });
				else if (!open[s] || e < 25) { p.op("rop", { std::to_string(t), "open", std::to_string(s), std::to_string(r.below(4)), tk, "@end" }); open[s] = true; }
				else if (e < 65) p.op("rop", { std::to_string(t), "next", std::to_string(s), std::to_string(1 + r.below(10)) });
				else if (e < 95) p.op("rop", { std::to_string(t), "seek", std::to_string(s), r.chance(1, 2) ? "@cur:0" : tk });
				else { p.op("rop", { std::to_string(t), "close", std::to_string(s) }); open[s] = false; }
			}
		}
		return p;
	}
	for (int t = 0; t < ntask; t++) {
		bool sorter = r.chance(2, 5);
		if (!sorter) {
			p.op("task", { std::to_string(t), "writer", std::to_string(r.below(6)), std::to_string(r.chance(1, 2) ? 1024 : 2048), std::to_string(1 + r.below(16)) });
			gen_task_adds(p, r, t, r.chance(1, 8) ? r.below(3) : 5 + r.below(r.chance(1, 3) ? 250 : 80), true, r.chance(1, 2) ? 100 : 300);
		} else {
			// finish: 0 iterate, 1 sorter_write, 2 destroy with chunk jobs possibly in flight
			uint64_t f = r.below(10);
			// failing merges (1 task in 5): the callback refuses some pairs inside pooled chunk jobs; such a sorter is then
			// destroyed without iterating (iterating after a failed chunk stops on an assertion today, outside the properties)
			bool failF = r.chance(1, 5);
			p.op("task", { std::to_string(t), "sorter", std::to_string(r.chance(1, 5) ? 1 : 64 + r.below(900)), std::to_string(failF ? 2 : f < 5 ? 0 : f < 7 ? 1 : 2), failF ? "1" : "0" });
			gen_task_adds(p, r, t, r.chance(1, 8) ? r.below(3) : 4 + r.below(70), false, 20);
		}
	}
	return p;
}

// ----------------------------------------------------------------- executor
namespace {

struct JobRec { int task; int seq; int yields; int ran; int delivered; };

struct Task {
	bool failF = false;
	int id = 0;
	std::string kind;
	bool ordered = true;
	// api
	std::vector<JobRec *> jobs;
	std::vector<int> order;	// seq numbers in delivery order (written by the handler thread)
	// writer
	int comp = 0; size_t bsize = 1024, rint = 16;
	// sorter
	size_t max_mem = 0; int finish = 0;
	std::vector<std::pair<Bytes, Bytes>> adds;
	// reader client
	std::vector<Op> rops;
	// shared
	RunResult res;
	threadpool *api_pool = nullptr;
	mtbl_threadpool *pub_pool = nullptr;
	int pool_size = 0;
	bool shared_pool = true;
	std::string path, refpath, tmpdir;
	const mtbl_source *rsrc = nullptr;
	const TableModel *rmodel = nullptr;
	pthread_t th;
};

static void *job_body(void *arg)
{
	JobRec *j = (JobRec *)arg;
	for (int i = 0; i < j->yields; i++) sim_yield();
	j->ran++;
	return j;
}
static void job_result(void *r, void *cbdata)
{
	Task *t = (Task *)cbdata;
	JobRec *j = (JobRec *)r;
	if (j == nullptr) { t->order.push_back(-1); return; }
	j->delivered++;
	t->order.push_back(j->task == t->id ? j->seq : -2);
}

static void write_task_file(Task &t, const std::string &path, mtbl_threadpool *pool, bool yield)
{
	unlink(path.c_str());
	mtbl_writer_options *wo = mtbl_writer_options_init();
	mtbl_writer_options_set_compression(wo, (mtbl_compression_type)t.comp);
	mtbl_writer_options_set_block_size(wo, t.bsize);
	mtbl_writer_options_set_block_restart_interval(wo, t.rint);
	if (pool) mtbl_writer_options_set_threadpool(wo, pool);
	mtbl_writer *w = mtbl_writer_init(path.c_str(), wo);
	mtbl_writer_options_destroy(&wo);
	if (!w) { t.res.fail("INFRA", "writer_init", "cannot create " + path); return; }
	size_t i = 0;
	for (auto &kv : t.adds) {
		if (mtbl_writer_add(w, (const uint8_t *)kv.first.data(), kv.first.size(), (const uint8_t *)kv.second.data(), kv.second.size()) != mtbl_res_success)
			t.res.fail("MODEL", "POOLED-WRITER-add-refused", "sorted add refused");
		if (yield && (++i & 3) == 0) sim_yield();
	}
	mtbl_writer_destroy(&w);
}

static void *task_main(void *arg)
{
	Task &t = *(Task *)arg;
	if (t.kind == "api") {
		result_handler *rh = result_handler_init(job_result, &t);
		for (auto j : t.jobs) threadpool_dispatch(t.api_pool, rh, t.ordered, job_body, j);
		result_handler_destroy(&rh);	// must return: DEADLOCK otherwise
		return nullptr;
	}
	mtbl_threadpool *pool = t.pub_pool;
	bool own = false;
	if (!t.shared_pool && t.kind != "reader") { pool = mtbl_threadpool_init((size_t)t.pool_size); own = true; }
	if (t.kind == "writer") {
		write_task_file(t, t.path, pool, true);
	} else if (t.kind == "sorter") {
		SorterSpec s;
		s.max_mem = t.max_mem; s.tmpdir = t.tmpdir; s.pool = pool; s.finish = t.finish; s.stateless_merge = true;
		s.yield_between = true; s.adds = t.adds; s.outpath = t.path;
		if (t.failF) {
			s.fail_on_F = true;
			size_t q = 0;
			for (auto &kv : s.adds) if ((q++ * 7 + kv.first.size()) % 3 == 0) kv.second.insert(0, "F");	// a third of the values
			t.res.probes["pooled-sorter-with-failing-merge"]++;
		}
		SorterOutcome out;
		run_sorter(s, t.res, out);
	} else if (t.kind == "reader") {
		Client cl(t.res, *t.rmodel, t.rsrc, nullptr, "SHARED-READER-");
		size_t opi = 0;
		for (auto &o : t.rops) { opi++; if (t.res.viol) break; cl.op(o, opi); sim_yield(); }
		cl.close_all();
	}
	if (own) mtbl_threadpool_destroy(&pool);
	return nullptr;
}
} // namespace

static RunResult exec_sched(const Plan &p)
{
	RunResult res;
	std::string dir = scratch_dir();
	std::string layer = p.gets("layer", "public");
	int pool_size = (int)p.geti("pool", 2);
	// (pool -1 comes from the minimiser's 'pool -> none' simplification; here it makes a pool without an upper bound)
	bool unbounded_pool = pool_size < 0;
	bool shared = p.geti("shared", 1) != 0;
	std::vector<Task> tasks(MAXTASK);
	std::vector<bool> used(MAXTASK, false);
	std::vector<std::pair<Bytes, Bytes>> rd_adds;
	for (auto &o : p.ops) {
		size_t t = (size_t)o.argi(0);
		if (o.name == "task" && t < MAXTASK) {
			used[t] = true;
			Task &k = tasks[t];
			k.id = (int)t; k.kind = o.arg(1);
			if (k.kind == "api") k.ordered = o.argi(2) != 0;
			if (k.kind == "writer") { k.comp = (int)(o.argi(2) % 6); k.bsize = (size_t)o.argi(3, 1024); k.rint = (size_t)(o.argi(4, 16) > 0 ? o.argi(4, 16) : 1); }
			if (k.kind == "sorter") { k.max_mem = (size_t)o.argi(2, 1); k.finish = (int)(o.argi(3) % 3); k.failF = o.argi(4) != 0; if (k.failF) k.finish = 2; }
		} else if (o.name == "job" && t < MAXTASK && used[t] && tasks[t].kind == "api") {
			JobRec *j = new JobRec{ (int)t, (int)tasks[t].jobs.size(), (int)(o.argi(1) % 8), 0, 0 };
			tasks[t].jobs.push_back(j);
		} else if (o.name == "add") {
			if (t == 9) rd_adds.push_back({ o.argb(1), o.argb(2) });
			else if (t < MAXTASK && used[t]) tasks[t].adds.push_back({ o.argb(1), o.argb(2) });
		} else if (o.name == "rop" && t < MAXTASK && used[t]) {
			Op r; r.name = o.arg(1);
			for (size_t i = 2; i < o.a.size(); i++) r.a.push_back(o.a[i]);
			tasks[t].rops.push_back(r);
		}
	}
	// a plan minimised down to tasks of mixed layers stays executable: api tasks need layer api
	size_t ntask = 0, npooled = 0;
	for (size_t t = 0; t < MAXTASK; t++) {
		if (!used[t]) continue;
		if ((tasks[t].kind == "api") != (layer == "api")) { used[t] = false; continue; }
		ntask++;
		if (tasks[t].kind == "writer" || tasks[t].kind == "sorter") npooled++;
	}

	// ---- shared reader (C14 reader plans) and no-pool reference files: before any thread exists
	TableModel rmodel = new_model();
	mtbl_reader *rd = nullptr;
	bool any_reader = false;
	for (size_t t = 0; t < MAXTASK; t++) if (used[t] && tasks[t].kind == "reader") any_reader = true;
	if (any_reader) {
		mfmt::Entries e;
		Bytes last; bool any = false;
		for (auto &kv : rd_adds) { if (any && mfmt::cmp(kv.first, last) <= 0) continue; e.push_back(kv); rmodel[kv.first] = kv.second; last = kv.first; any = true; }
		std::string rp = dir + "/shared.mtbl";
		// rd_enc=1: the table comes from the independent encoder, so that the library's own code (one-time
		// initialisation included) runs for the first time inside the client tasks when the process is fresh
		if (p.geti("rd_enc", 0)) {
			mfmt::EncOpts eo; eo.algo = (int)(p.geti("rd_comp", 0) % 6); eo.seed = p.seed * 31 + p.run; eo.max_block_entries = 6;
			if (!write_file(rp, mfmt::encode(e, eo))) { res.fail("INFRA", "write_file", "shared table"); return res; }
			res.probes["shared-table-from-independent-encoder"]++;
		} else if (!write_table(rp, e, (int)(p.geti("rd_comp", 0) % 6), 4, 1024)) { res.fail("INFRA", "write_table", "shared table"); return res; }
		mtbl_reader_options *ro = make_reader_options(p.geti("rd_verify", 0) != 0, optvar_next() & 1);
		rd = mtbl_reader_init(rp.c_str(), ro);
		mtbl_reader_options_destroy(&ro);
		if (!rd) { res.fail("INFRA", "reader_init", "shared table"); return res; }
		res.probes["shared-reader-plan"]++;
	}
	for (size_t t = 0; t < MAXTASK; t++) {
		if (!used[t]) continue;
		Task &k = tasks[t];
		k.pool_size = pool_size; k.shared_pool = shared;
		k.path = dir + "/task" + std::to_string(t) + ".mtbl";
		k.refpath = dir + "/ref" + std::to_string(t) + ".mtbl";
		k.tmpdir = dir + "/tmp" + std::to_string(t);
		mkdir(k.tmpdir.c_str(), 0700);
		k.rsrc = rd ? mtbl_reader_source(rd) : nullptr;
		k.rmodel = &rmodel;
	}

	// ---- the simulated part
	// MTBLSIM_REAL_THREADS=1 (selftest only): leave the scheduler off, so that every pthread call goes to the
	// real libpthread and the OS schedules; the functional oracles must hold there too (second opinion on the
	// emulated mutex/condvar semantics) and, in the tsan variant, ThreadSanitizer sees the real synchronisation
	bool real_threads = getenv("MTBLSIM_REAL_THREADS") != nullptr;
	sim_sched_cfg sc; sched_cfg_parse(p.gets("sched", "0:1:0:1:0:0:0:1:0:1:200000:1000"), &sc);
	if (!real_threads) sim_sched_begin(&sc);
	threadpool *api_pool = nullptr;
	mtbl_threadpool *pub_pool = nullptr;
	if (layer == "api") api_pool = threadpool_init((size_t)(pool_size > 0 ? pool_size : 1));
	else if (shared) pub_pool = mtbl_threadpool_init((size_t)pool_size);
	for (size_t t = 0; t < MAXTASK; t++) if (used[t]) { tasks[t].api_pool = api_pool; tasks[t].pub_pool = pub_pool; }
	for (size_t t = 0; t < MAXTASK; t++) if (used[t]) sim_pthread_create(&tasks[t].th, nullptr, task_main, &tasks[t]);
	for (size_t t = 0; t < MAXTASK; t++) if (used[t]) sim_pthread_join(tasks[t].th, nullptr);
	if (api_pool) threadpool_destroy(&api_pool);
	if (pub_pool) mtbl_threadpool_destroy(&pub_pool);
	sim_sched_stats st; memset(&st, 0, sizeof st);
	if (!real_threads) sim_sched_end(&st); else { st.steps = 100; st.switches = 10; st.preempts = 1; }
	if (rd) mtbl_reader_destroy(&rd);
	// the no-pool reference files are written only now: nothing of the library has run on the main thread
	// before the tasks, so in a fresh process their first calls meet every lazily initialised global cold
	for (size_t t = 0; t < MAXTASK; t++) if (used[t] && tasks[t].kind == "writer") write_task_file(tasks[t], tasks[t].refpath, nullptr, false);

	res.sched_hash = st.choices_hash; res.steps = st.steps; res.abs_states = st.abs_states;
	res.ev.u(st.choices_hash);
	if (st.spurious) res.faults["spurious-wakeup"] += st.spurious;
	if (st.multiwake) res.faults["signal-wakes-two"] += st.multiwake;
	if (st.starves) res.faults["thread-starved"] += st.starves;
	if (st.delays) res.faults["thread-start-delayed"] += st.delays;
	if (st.lock_contended) res.probes["mutex-contended"] += st.lock_contended;
	if (st.join_waited) res.probes["join-had-to-wait"] += st.join_waited;
	if (st.signals_lost) res.probes["signal-with-no-waiter"] += st.signals_lost;
	if (st.unjoined) res.fail("SCHED", "THREAD-LEAK", std::to_string(st.unjoined) + " threads neither exited nor joined when every destroy had returned");

	// worker count (see pool_threads() in common.cc for how pool workers are told from result handlers)
	{
		uint32_t limit = (uint32_t)((layer == "api" || shared) ? (pool_size > 0 ? pool_size : (layer == "api" ? 1 : 0)) : pool_size * (int)npooled);
		uint32_t nhandlers = layer == "api" ? (uint32_t)ntask : (uint32_t)npooled;
		PoolThreads pt = pool_threads(st);
		if (!pt.named && st.threads_created > ntask) res.probes["start-routine-names-unknown"]++;
		std::string wb = unbounded_pool ? std::string() : worker_bound_broken(st, limit, (uint32_t)ntask, nhandlers);
		if (!wb.empty()) res.fail("SCHED", "WORKER-COUNT", wb);
		if (pt.named && pt.workers_created > 0 && pt.worker_max == limit && limit > 0) res.probes["pool-saturated"]++;
		if (pt.named && pt.workers_created > 0) res.probes["workers-created"] += pt.workers_created;
	}

	// ---- oracles over the recorded history
	size_t total_jobs = 0;
	for (size_t t = 0; t < MAXTASK; t++) {
		if (!used[t]) continue;
		Task &k = tasks[t];
		if (k.res.viol) res.fail(k.res.vclass, k.res.site, "task " + std::to_string(t) + ": " + k.res.detail);
		for (auto &kv : k.res.probes) res.probes[kv.first] += kv.second;
		res.ev.u(k.res.ev.h);
		if (k.kind == "api") {
			total_jobs += k.jobs.size();
			res.ev.u(k.order.size());
			for (auto j : k.jobs) {
				if (j->ran != 1) res.fail("MODEL", "JOB-not-run-once", "task " + std::to_string(t) + " job " + std::to_string(j->seq) + " ran " + std::to_string(j->ran) + " times");
				if (j->delivered != 1) res.fail("MODEL", j->delivered == 0 ? "RESULT-lost" : "RESULT-duplicated", "task " + std::to_string(t) + " job " + std::to_string(j->seq) + ": result delivered " + std::to_string(j->delivered) + " times");
			}
			if (k.order.size() != k.jobs.size()) res.fail("MODEL", "RESULT-count", "task " + std::to_string(t) + ": " + std::to_string(k.order.size()) + " callbacks for " + std::to_string(k.jobs.size()) + " jobs");
			for (size_t i = 0; i < k.order.size(); i++) {
				if (k.order[i] < 0) res.fail("MODEL", "RESULT-foreign", "task " + std::to_string(t) + ": callback received a result that is not one of its jobs");
				else if (k.ordered && k.order[i] != (int)i) { res.fail("MODEL", "RESULT-order", "task " + std::to_string(t) + " (ordered): callback #" + std::to_string(i) + " delivered job " + std::to_string(k.order[i])); break; }
				else if (!k.ordered && k.order[i] != (int)i) res.probes["unordered-delivery-out-of-order"]++;
			}
			if (k.ordered) res.probes["ordered-handler"]++; else res.probes["unordered-handler"]++;
			for (auto j : k.jobs) delete j;
		} else if (k.kind == "writer") {
			Bytes a = read_file(k.path), b = read_file(k.refpath);
			res.ev.u(a.size());
			if (a != b) {
				size_t i = 0; while (i < a.size() && i < b.size() && a[i] == b[i]) i++;
				res.fail("MODEL", "POOLED-WRITER-differs", "task " + std::to_string(t) + ": file written with a pool differs from the one written without (" + std::to_string(a.size()) + " vs " + std::to_string(b.size()) + " bytes, first difference at offset " + std::to_string(i) + ")");
			}
			res.probes["pooled-writer"]++;
		} else if (k.kind == "sorter") res.probes["pooled-sorter"]++;
	}
	if (layer == "api") res.nontrivial = total_jobs >= 2 && st.steps >= 30;
	else res.nontrivial = st.switches >= 5 && (ntask >= 2 || st.preempts >= 1);
	return res;
}

extern const Engine engine_sched = { "sched", gen_sched, exec_sched };
