#include "common.h"
static Plan g(const std::string &, const std::string &, uint64_t, uint64_t) { return Plan(); }
static RunResult x(const Plan &) { RunResult r; r.fail("INFRA", "stub", "engine not built"); return r; }
#define STUB(n) const Engine engine_##n = { #n, g, x };
#ifndef HAVE_MERGE
STUB(merge)
#endif
#ifndef HAVE_SORTER
STUB(sorter)
#endif
#ifndef HAVE_FILESET
STUB(fileset)
#endif
#ifndef HAVE_CORRUPT
STUB(corrupt)
#endif
#ifndef HAVE_SCHED
STUB(sched)
#endif
#ifndef HAVE_LEAK
STUB(leak)
#endif
#ifndef HAVE_WFAULT
STUB(wfault)
#endif
