// pieces of the table engine reused by other engines
#pragma once
#include "common.h"
#include "../sim/seams.h"
extern "C" {
#include <mtbl.h>
}

// Runs the real writer over `adds` with the writer configuration in p.cfg (comp, level, bsize,
// rint, pool + sched, prefix, wfrag, initfd); fills `model` with the accepted entries.
bool tablelib_write(const Plan &p, RunResult &res, const std::string &path, TableModel &model,
		    const std::vector<Op> &adds, bool check_gate, Bytes *prefix_out);

void gen_writer_cfg(Plan &p, Rng &r, bool allow_pool, bool allow_wfrag, bool allow_prefix);
size_t draw_n(Rng &r);
void gen_sorted_adds(Plan &p, Rng &r, size_t n, int big_pm);

// Option objects are filled in the way applications do it: setters in any order, some called twice, a value first set
// to something else and then corrected, defaults set explicitly or not at all.  The variation is a pure function of
// the plan (optvar_begin is called by main.cc before every execution).
void optvar_begin(uint64_t seed);
uint64_t optvar_next();
mtbl_reader_options *make_reader_options(bool verify, bool madvise);

// cfg wfrag=list takes the write faults from here; stats of the last armed write land in g_tablelib_wstats
extern std::vector<sim_wfault> g_tablelib_wlist;
extern sim_wstats g_tablelib_wstats;

// Stateful multi-iterator client over any mtbl_source, checked against an ordered-map model.
// ops: open S kind K0 K1 | next S n | seek S K | close S | q kind K0 K1
// key tokens: byte specs or symbolic (@k<i> @s<i> @f<i> @l<i> @cur @cf @cl @pf @nf @rs<i> @end, optional :variant)
struct ClientSlot {
	mtbl_iter *it = nullptr;
	bool open = false;
	int kind = 0;
	Bytes k0, k1;
	TableModel::const_iterator pos;
	bool failed = false;
	bool have = false;
	const uint8_t *kp = nullptr, *vp = nullptr;
	size_t kl = 0, vl = 0;
	Bytes kcopy, vcopy;
	Bytes cur;
	bool crossed = false;
	int last_blk = -1;
};

struct Client {
	RunResult &res;
	const TableModel &model;
	const mtbl_source *src;
	const mfmt::DFile *df;	// may be null (no block structure known)
	std::vector<Bytes> keys;
	std::map<Bytes, int, bool (*)(const Bytes &, const Bytes &)> blk_of{ bytes_less };
	ClientSlot slot[4];
	bool had_seek_after_cross = false, had_any_seek = false;
	std::string tag;	// prefix for violation sites (e.g. "MERGER-")

	Client(RunResult &r, const TableModel &m, const mtbl_source *s, const mfmt::DFile *d, const std::string &tag = "");
	Bytes resolve(const std::string &tok, const ClientSlot *s);
	void query_pair(int kindA, const Bytes &a0, const Bytes &a1, int kindB, const Bytes &b0, const Bytes &b1, size_t opi, uint64_t pattern);
	bool op(const Op &o, size_t opi);	// true if the op was a client op
	void close_all();
	void query(int kind, const Bytes &k0, const Bytes &k1, size_t opi);
private:
	void do_next(int si, size_t opi);
	void slot_close(ClientSlot &s, const char *opname);
};
