// pieces of the table engine reused by other engines
#pragma once
#include "common.h"
// Runs the real writer over `adds` with the writer configuration in p.cfg (comp, level, bsize,
// rint, pool + sched, prefix, wfrag, initfd); fills `model` with the accepted entries.
bool tablelib_write(const Plan &p, RunResult &res, const std::string &path, TableModel &model,
		    const std::vector<Op> &adds, bool check_gate, Bytes *prefix_out);
