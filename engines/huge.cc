// C11, the > 4 GiB restart-array branch of mtbl/block.c (and of block_builder.c):
// a block whose entry area exceeds 2^32 bytes stores 64-bit restart offsets.
//   sparse  : the block is hand-built in a sparse anonymous mapping (only a few pages are touched)
//   builder : the real block_builder produces the block (needs ~9 GiB of memory for a few seconds)
#include "common.h"
#include <sys/mman.h>
extern "C" {
struct block; struct block_iter; struct block_builder;
struct block *block_init(uint8_t *data, size_t size, bool needs_free);
void block_destroy(struct block **);
struct block_iter *block_iter_init(struct block *);
void block_iter_destroy(struct block_iter **);
void block_iter_seek_to_first(struct block_iter *);
void block_iter_seek(struct block_iter *, const uint8_t *key, size_t key_len);
bool block_iter_next(struct block_iter *);
bool block_iter_get(struct block_iter *, const uint8_t **key, size_t *key_len, const uint8_t **val, size_t *val_len);
struct block_builder *block_builder_init(size_t block_restart_interval);
void block_builder_destroy(struct block_builder **);
void block_builder_finish(struct block_builder *, uint8_t **buf, size_t *bufsz);
void block_builder_add(struct block_builder *, const uint8_t *key, size_t len_key, const uint8_t *val, size_t len_val);
}

static void wr32(uint8_t *p, uint32_t v) { for (int i = 0; i < 4; i++) p[i] = (uint8_t)(v >> (8 * i)); }
static void wr64(uint8_t *p, uint64_t v) { for (int i = 0; i < 8; i++) p[i] = (uint8_t)(v >> (8 * i)); }
static uint64_t rd64(const uint8_t *p) { uint64_t v = 0; for (int i = 0; i < 8; i++) v |= (uint64_t)p[i] << (8 * i); return v; }

static void check_block(RunResult &res, uint8_t *data, size_t size, const std::vector<std::pair<Bytes, uint64_t>> &want, const char *what)
{
	struct block *b = block_init(data, size, false);
	struct block_iter *bi = block_iter_init(b);
	block_iter_seek_to_first(bi);
	size_t n = 0;
	for (;;) {
		const uint8_t *k, *v; size_t kl, vl;
		if (!block_iter_get(bi, &k, &kl, &v, &vl)) break;
		if (n >= want.size() || Bytes((const char *)k, kl) != want[n].first || vl != want[n].second) {
			res.fail("MODEL", std::string("HUGE64-iterate-") + what, "entry " + std::to_string(n) + " of a block of about 4 GiB decodes as key " + short_repr(Bytes((const char *)k, kl)) + " value length " + std::to_string(vl));
			break;
		}
		n++;
		if (!block_iter_next(bi)) break;
	}
	if (!res.viol && n != want.size()) res.fail("MODEL", std::string("HUGE64-count-") + what, std::to_string(n) + " of " + std::to_string(want.size()) + " entries decoded from a block of about 4 GiB");
	// seeks through the 64-bit restart array
	for (size_t i = 0; i < want.size() && !res.viol; i++) {
		block_iter_seek(bi, (const uint8_t *)want[i].first.data(), want[i].first.size());
		const uint8_t *k, *v; size_t kl, vl;
		if (!block_iter_get(bi, &k, &kl, &v, &vl) || Bytes((const char *)k, kl) != want[i].first || vl != want[i].second)
			res.fail("MODEL", std::string("HUGE64-seek-") + what, "seek to key " + short_repr(want[i].first) + " in a block of about 4 GiB lands elsewhere");
	}
	block_iter_destroy(&bi);
	block_destroy(&b);
}

void huge64_check(RunResult &res, bool builder, uint64_t seed)
{
	Rng r(seed, 0x4816e, 3);
	const uint64_t big = (1ull << 31) + 4096 + r.below(4096);	// value length of the two large entries
	std::vector<std::pair<Bytes, uint64_t>> want;
	if (!builder) {
		// layout: e0 "a"(restart) big value | e1 "ab" shared 1 big value | e2 "b"(restart) small | e3 "ba" small | restarts(64-bit) | count
		size_t cap = (size_t)(2 * big + (1 << 20));
		uint8_t *m = (uint8_t *)mmap(nullptr, cap, PROT_READ | PROT_WRITE, MAP_PRIVATE | MAP_ANONYMOUS | MAP_NORESERVE, -1, 0);
		if (m == MAP_FAILED) { res.unjudged["huge64-sparse-mapping-refused"]++; return; }
		uint64_t off = 0, r0, r2;
		auto vlen_of = [](uint64_t v) { uint8_t t[12]; return (uint64_t)mfmt::put_varint(t, v); };
		auto entry_size = [&](uint64_t shared, const Bytes &suffix, uint64_t vlen) { return vlen_of(shared) + vlen_of(suffix.size()) + vlen_of(vlen) + suffix.size() + vlen; };
		auto put_entry = [&](uint64_t shared, const Bytes &suffix, uint64_t vlen) {
			off += mfmt::put_varint(m + off, shared);
			off += mfmt::put_varint(m + off, suffix.size());
			off += mfmt::put_varint(m + off, vlen);
			memcpy(m + off, suffix.data(), suffix.size()); off += suffix.size();
			off += vlen;	// value bytes stay untouched (zero pages)
		};
		// where the entry area ends decides the width of the restart array (64-bit iff it ends beyond 2^32 - 1, the
		// writer's rule); the second large value is sized so that the end lands on a drawn side of that threshold:
		//   0 far above | 1 at most 2^32-1 but the block as a whole is larger than that (32-bit slots) |
		//   2 just above (64-bit slots) | 3 the whole block just below | 4 exactly 2^32-1
		const int mode = (int)(seed % 5);
		const uint64_t nrs = 8, M = 0xFFFFFFFFull;
		uint64_t big2 = big;
		if (mode != 0) {
			uint64_t fixed = entry_size(0, "a", big) + entry_size(0, "b", 5) + entry_size(1, "a", 0);
			for (char c = 'c'; c <= 'h'; c++) fixed += entry_size(0, Bytes(1, c), (uint64_t)(c - 'a') * 3) + entry_size(1, "x", 1);
			uint64_t d = r.below(4 * nrs + 4);
			uint64_t target = mode == 1 ? M - d : mode == 2 ? M + 1 + r.below(40) : mode == 3 ? M - 4 * nrs - 4 - r.below(40) : M;
			big2 = target - fixed - (entry_size(1, "b", big) - big);	// same varint length as `big` (both in 2^28 .. 2^35)
		}
		r0 = off; put_entry(0, "a", big); want.push_back({ "a", big });
		put_entry(1, "b", big2); want.push_back({ "ab", big2 });
		r2 = off; put_entry(0, "b", 5); want.push_back({ "b", 5 });
		put_entry(1, "a", 0); want.push_back({ "ba", 0 });
		// several more restart points beyond 2^32 so that every slot of the 64-bit array matters
		std::vector<uint64_t> rs{ r0, r2 };
		for (char c = 'c'; c <= 'h'; c++) {
			rs.push_back(off);
			uint64_t vl = (uint64_t)(c - 'a') * 3;
			put_entry(0, Bytes(1, c), vl); want.push_back({ Bytes(1, c), vl });
			put_entry(1, "x", 1); want.push_back({ Bytes(1, c) + "x", 1 });
		}
		if (off <= M) {
			// entry area ends at or below 2^32 - 1: 32-bit slots, whatever the size of the block as a whole
			for (size_t i = 0; i < rs.size(); i++) wr32(m + off + 4 * i, (uint32_t)rs[i]);
			wr32(m + off + 4 * rs.size(), (uint32_t)rs.size());
			size_t size32 = (size_t)(off + 4 * rs.size() + 4);
			res.probes[size32 > M ? "huge64-entry-area-below-2^32-block-above" : "huge64-block-just-below-2^32"]++;
			check_block(res, m, size32, want, size32 > M ? "straddling" : "below");
			munmap(m, cap);
			return;
		}
		if (mode == 2) res.probes["huge64-entry-area-just-above-2^32"]++;
		for (size_t i = 0; i < rs.size(); i++) wr64(m + off + 8 * i, rs[i]);
		wr32(m + off + 8 * rs.size(), (uint32_t)rs.size());
		size_t size = (size_t)(off + 8 * rs.size() + 4);
		res.probes["huge64-sparse-block"]++;
		check_block(res, m, size, want, "sparse");
		munmap(m, cap);
		return;
	}
	// the real block_builder above the 32-bit threshold; it needs ~14 GiB resident for a few seconds (the builder's
	// buffer doubles while a 2 GiB value is appended), so it is left unjudged on a machine without that much to spare
	{
		FILE *mi = fopen("/proc/meminfo", "r");
		unsigned long long avail_kb = 0;
		char line[256];
		while (mi && fgets(line, sizeof line, mi)) if (sscanf(line, "MemAvailable: %llu kB", &avail_kb) == 1) break;
		if (mi) fclose(mi);
		if (avail_kb < 24ull * 1024 * 1024) { res.unjudged["huge64-builder-skipped-less-than-24GiB-available"]++; return; }
	}
	uint8_t *val = (uint8_t *)mmap(nullptr, (size_t)big, PROT_READ, MAP_PRIVATE | MAP_ANONYMOUS | MAP_NORESERVE, -1, 0);
	if (val == MAP_FAILED) { res.unjudged["huge64-builder-mapping-refused"]++; return; }
	struct block_builder *bb = block_builder_init(2);
	block_builder_add(bb, (const uint8_t *)"a", 1, val, (size_t)big); want.push_back({ "a", big });
	block_builder_add(bb, (const uint8_t *)"ab", 2, val, (size_t)big); want.push_back({ "ab", big });
	block_builder_add(bb, (const uint8_t *)"b", 1, (const uint8_t *)"small", 5); want.push_back({ "b", 5 });
	block_builder_add(bb, (const uint8_t *)"ba", 2, val, 0); want.push_back({ "ba", 0 });
	uint8_t *buf; size_t sz;
	block_builder_finish(bb, &buf, &sz);
	munmap(val, (size_t)big);
	// independent look at the tail: two 64-bit restart offsets + 32-bit count
	if (sz < 20 || buf[sz - 4] != 2 || rd64(buf + sz - 20) != 0 || rd64(buf + sz - 12) <= 0xFFFFFFFFull)
		res.fail("FORMAT", "HUGE64-builder-restart-array", "block_builder did not emit a 64-bit restart array for a block above 4 GiB");
	res.probes["huge64-builder-block"]++;
	if (!res.viol) check_block(res, buf, sz, want, "builder");
	free(buf);
	block_builder_destroy(&bb);
}
