// Engine `wfault`: the outcome of every write(2) the writer issues is decided
// by the simulator: full / short by any length / EINTR runs / hard error.
// Serves C20.
#include "common.h"
#include "tablelib.h"
#include "../sim/simsched.h"
#include <algorithm>
#include <fcntl.h>
#include <signal.h>
#include <sys/wait.h>
#include <unistd.h>

static Plan gen_wfault(const std::string &prop, const std::string &tier, uint64_t seed, uint64_t run)
{
	Plan p;
	p.engine = "wfault"; p.prop = prop; p.tier = tier; p.seed = seed; p.run = run;
	Rng r(seed, run, 0xfa017);
	bool thorough = tier == "thorough";
	gen_writer_cfg(p, r, true, false, true);
	p.set("sched", sched_cfg_gen(r, 600));
	p.set("wfrag", "none");
	uint64_t d = r.below(100);
	bool sweep = thorough ? d < 10 : d < 2;
	bool hard = !sweep && d < (thorough ? 20 : 6);
	size_t n = sweep ? r.below(12) : r.chance(1, 2) ? r.below(30) : draw_n(r);
	gen_sorted_adds(p, r, n, r.chance(1, 2) ? 0 : 100);
	// now and then one entry of 1.2 .. 3.6 MiB of incompressible bytes: a single write request of more than a megabyte
	// (an implementation may split such a request; every piece is a call that can come back short or fail)
	if (!sweep && r.chance(1, hard ? 4 : 25)) {
		char t[64]; snprintf(t, sizeof t, "p%ds%d", 1200000 + (int)r.below(2400000), (int)r.below(1000));
		p.op("add", { "xffff+c24xfe", t });
		p.set("bigvalue", "1");
	}
	if (sweep) {
		p.seti("pool", r.chance(1, 3) ? (long long)r.below(3) : -1);
		p.op("sweep");
	} else if (hard) {
		static const int errs[] = { 5 /*EIO*/, 28 /*ENOSPC*/, 122 /*EDQUOT*/, 9 /*EBADF*/, 32 /*EPIPE*/, 27 /*EFBIG*/, 22 /*EINVAL*/, 14 /*EFAULT*/ };
		// a few EINTR / short faults before the hard one
		int pre = (int)r.below(4);
		for (int i = 0; i < pre; i++)
			p.op("wf", { std::to_string(r.below(200)), r.chance(1, 2) ? "eintr" : "short", std::to_string(r.below(100000)) });
		p.op("hard", { std::to_string(r.below(400)), std::to_string(errs[r.below(8)]) });
	} else {
		int nf = 1 + (int)r.below(r.chance(1, 3) ? 60 : 12);
		for (int i = 0; i < nf; i++) {
			uint64_t call = r.below(r.chance(1, 2) ? 40 : 600);
			uint64_t k = r.below(10);
			if (k < 4) p.op("wf", { std::to_string(call), "short", std::to_string(r.chance(1, 3) ? 0 : r.below(100000)) });
			else if (k < 8) { int reps = 1 + (int)r.below(4); for (int j = 0; j < reps; j++) p.op("wf", { std::to_string(call + j), "eintr", "0" }); }
			else { p.op("wf", { std::to_string(call), "eintr", "0" }); p.op("wf", { std::to_string(call + 1), "short", std::to_string(r.below(100000)) }); }
		}
	}
	return p;
}

static bool write_with(const Plan &p, RunResult &res, const std::string &path, const std::vector<Op> &adds,
		       const std::vector<sim_wfault> &faults, Bytes &out)
{
	Plan q = p;
	q.set("wfrag", "list");
	g_tablelib_wlist = faults;
	std::stable_sort(g_tablelib_wlist.begin(), g_tablelib_wlist.end(), [](const sim_wfault &a, const sim_wfault &b) { return a.call < b.call; });
	TableModel m = new_model();
	RunResult tmp;
	bool ok = tablelib_write(q, tmp, path, m, adds, false, nullptr);
	if (tmp.viol) res.fail(tmp.vclass, tmp.site, tmp.detail);
	res.steps += tmp.steps;
	res.sched_hash ^= tmp.sched_hash;
	for (auto &kv : tmp.faults) res.faults[kv.first] += kv.second;
	for (auto &kv : tmp.probes) res.probes[kv.first] += kv.second;
	if (!ok) return false;
	out = read_file(path);
	return true;
}

static RunResult exec_wfault(const Plan &p)
{
	RunResult res;
	std::string path = scratch_dir() + "/w.mtbl";
	std::vector<Op> adds;
	for (auto &o : p.ops) if (o.name == "add") adds.push_back(o);

	// fault-free reference (same plan, every write completes in full); also logs the write calls
	Bytes ref;
	if (!write_with(p, res, path, adds, {}, ref)) return res;
	std::vector<uint32_t> sizes(4096);
	size_t ncalls = sim_wlog(sizes.data(), sizes.size());
	if (ncalls > sizes.size()) ncalls = sizes.size();
	sizes.resize(ncalls);
	res.ev.u(ref.size()); res.ev.u(ncalls);
	res.probes["write-calls"] += ncalls;

	std::vector<sim_wfault> faults;
	bool have_hard = false, have_sweep = false;
	sim_wfault hardf{};
	for (auto &o : p.ops) {
		if (o.name == "wf") {
			sim_wfault f{ (uint32_t)o.argi(0), (uint8_t)(o.arg(1) == "eintr" ? WF_EINTR : WF_SHORT), (uint32_t)o.argi(2) };
			faults.push_back(f);
		} else if (o.name == "hard" && !have_hard) {
			have_hard = true;
			hardf = sim_wfault{ (uint32_t)o.argi(0), WF_HARD, (uint32_t)o.argi(1, 5) };
		} else if (o.name == "sweep") have_sweep = true;
	}

	auto compare = [&](const std::vector<sim_wfault> &fl, const std::string &what) {
		Bytes got;
		if (!write_with(p, res, path, adds, fl, got)) return;
		sim_wstats ws = g_tablelib_wstats;
		if (ws.shorts) res.probes["short-inside-call"] += ws.shorts;
		if (got != ref) {
			size_t i = 0;
			while (i < got.size() && i < ref.size() && got[i] == ref[i]) i++;
			res.fail("MODEL", "FRAG-differs", what + ": file differs from the fault-free file (" + std::to_string(got.size()) + " vs " + std::to_string(ref.size()) + " bytes, first difference at offset " + std::to_string(i) + ")");
		}
	};

	if (have_sweep) {
		// a single fault at every write call of this (small) file, several shapes each
		size_t cases = 0;
		for (uint32_t c = 0; c < ncalls && !res.viol; c++) {
			uint32_t n = sizes[c];
			std::vector<std::vector<sim_wfault>> shapes;
			shapes.push_back({ { c, WF_EINTR, 0 } });
			shapes.push_back({ { c, WF_EINTR, 0 }, { c + 1, WF_EINTR, 0 } });
			if (n > 1) {
				if (n <= 16) for (uint32_t k = 0; k + 1 < n; k++) shapes.push_back({ { c, WF_SHORT, k } });
				else { shapes.push_back({ { c, WF_SHORT, 0 } }); shapes.push_back({ { c, WF_SHORT, n - 2 } }); shapes.push_back({ { c, WF_SHORT, n / 2 } }); }
				shapes.push_back({ { c, WF_SHORT, 0 }, { c + 1, WF_SHORT, 0 } });
				shapes.push_back({ { c, WF_EINTR, 0 }, { c + 1, WF_SHORT, n / 3 }, { c + 2, WF_EINTR, 0 } });
			}
			for (auto &s : shapes) { compare(s, "single fault at write call " + std::to_string(c) + " of " + std::to_string(ncalls)); cases++; if (res.viol) break; }
		}
		res.probes["sweep-cases"] += cases;
		res.probes["sweep-runs"]++;
		res.nontrivial = ncalls >= 4;
		res.ev.u(cases);
		return res;
	}

	// interpret call indices modulo the number of write attempts a faulted run can have
	uint32_t span = (uint32_t)(ncalls + faults.size() + 2);
	for (auto &f : faults) f.call %= span;

	if (have_hard) {
		if (p.gets("bigvalue", "") == "1") res.probes["hard-error-plan-with-megabyte-entry"]++;
		hardf.call %= span;
		std::vector<sim_wfault> fl = faults;
		fl.push_back(hardf);
		int pfd[2];
		if (pipe(pfd)) { res.fail("INFRA", "pipe", "pipe failed"); return res; }
		fflush(stdout); fflush(stderr);
		pid_t pid = fork();
		if (pid == 0) {
			// child: the hard error must stop the process before the API call returns
			close(pfd[0]);
			int dn = open("/dev/null", O_WRONLY);
			dup2(pfd[1], 2);	// stderr -> parent
			if (dn >= 0) dup2(dn, 1);
			signal(SIGABRT, SIG_DFL);
			Bytes got; RunResult tmp;
			std::string cpath = path + ".child";
			write_with(p, tmp, cpath, adds, fl, got);
			sim_wstats ws = g_tablelib_wstats;
			// returned normally: tell the parent whether the hard fault fired at all
			const char *msg = ws.hards ? "CHILD-RETURNED hard-fired\n" : "CHILD-RETURNED hard-not-reached\n";
			(void)!write(2, msg, strlen(msg));
			_exit(0);
		}
		close(pfd[1]);
		Bytes err; char buf[4096]; ssize_t k;
		while ((k = read(pfd[0], buf, sizeof buf)) > 0) err.append(buf, k);
		close(pfd[0]);
		int st = 0;
		while (waitpid(pid, &st, 0) < 0 && errno == EINTR) ;
		unlink((path + ".child").c_str());
		res.ev.u(WIFSIGNALED(st) ? 1000 + WTERMSIG(st) : WEXITSTATUS(st));
		if (WIFEXITED(st) && WEXITSTATUS(st) == 0 && err.find("hard-not-reached") != Bytes::npos) {
			res.unjudged["hard-fault-not-reached"]++;
		} else if (WIFEXITED(st) && WEXITSTATUS(st) == 0) {
			res.fail("MODEL", "NOT-ABORTED", "write(2) failed hard with errno " + std::to_string(hardf.arg) + " at call " + std::to_string(hardf.call) + " but the writer finished as if nothing happened");
		} else if (WIFSIGNALED(st) && WTERMSIG(st) == SIGABRT) {
			res.faults["hard-write-error"]++;
			// "loudly": some diagnostic reaches stderr before the abort (today: "write() failed: <strerror>" and the assertion
			// text); its wording is the library's business
			if (err.find_first_not_of(" \t\r\n") == Bytes::npos) res.fail("MODEL", "ABORT-SILENT", "process aborted after the hard write error without any diagnostic on stderr");
			else res.probes["hard-error-stopped-loudly"]++;
		} else {
			// sanitizer report or another signal in the child
			res.fail("CRASH", "HARD-child-" + std::to_string(WIFSIGNALED(st) ? WTERMSIG(st) : WEXITSTATUS(st)), "child died unexpectedly after hard write error: " + err.substr(0, 600));
		}
		res.nontrivial = true;
		return res;
	}

	if (p.gets("bigvalue", "") == "1") res.probes["plan-with-megabyte-entry"]++;
	compare(faults, std::to_string(faults.size()) + " seeded faults");
	sim_wstats ws = g_tablelib_wstats;
	res.nontrivial = ws.shorts >= 1 && ws.eintrs >= 1;
	// reach of the seam: the writer must hand its bytes to write / writev / pwrite / pwritev (the calls the seam owns);
	// if it ever uses something else the faults of this check never land and its silence would mean nothing
	if (ws.calls > 0) res.probes["write-family-calls-seen"]++; else res.unjudged["writer-made-no-call-through-the-write-seam"]++;
	if (ws.vectored) res.probes["vectored-write-calls"] += ws.vectored;
	return res;
}

extern const Engine engine_wfault = { "wfault", gen_wfault, exec_wfault };
