// Engine `merge`: real mergers over real tables and user-defined sources that
// invalidate their buffers on every call; merge callback failure injected at
// call j.  Serves C04 (fold) and C05 (lookups and seeks through a merger).
#include "common.h"
#include "tablelib.h"
#include "mergelib.h"
#include <algorithm>
#include <fcntl.h>
#include <unistd.h>

// ------------------------------------------------------------- merge function
// value = newline-terminated tokens, sorted; merging = sorted multiset union.
// Associative and commutative (the fold order is not specified by mtbl), yet
// the result shows whether each value was used zero, one or two times.
static std::vector<std::string> tokens_of(const uint8_t *v, size_t n)
{
	std::vector<std::string> t;
	size_t s = 0;
	for (size_t i = 0; i < n; i++) if (v[i] == '\n') { t.emplace_back((const char *)v + s, i - s); s = i + 1; }
	if (s < n) t.emplace_back((const char *)v + s, n - s);
	return t;
}
Bytes union_values(const Bytes &a, const Bytes &b)
{
	auto ta = tokens_of((const uint8_t *)a.data(), a.size()), tb = tokens_of((const uint8_t *)b.data(), b.size());
	ta.insert(ta.end(), tb.begin(), tb.end());
	std::sort(ta.begin(), ta.end());
	Bytes o;
	for (auto &t : ta) { o += t; o.push_back('\n'); }
	return o;
}
Bytes fold_values(int mfunc, const Bytes &a, const Bytes &b)
{
	switch (mfunc) {
	case MF_MIN: return mfmt::cmp(a, b) <= 0 ? a : b;
	case MF_MAX: return mfmt::cmp(a, b) >= 0 ? a : b;
	case MF_LCP: return a.substr(0, mfmt::lcp(a, b));
	case MF_SUM32: {
		uint32_t x = 0, y = 0;
		for (size_t i = 0; i < 4; i++) { if (i < a.size()) x |= (uint32_t)(uint8_t)a[i] << (8 * i); if (i < b.size()) y |= (uint32_t)(uint8_t)b[i] << (8 * i); }
		uint32_t z = x + y;
		Bytes o; for (int i = 0; i < 4; i++) o.push_back((char)(z >> (8 * i)));
		return o;
	}
	default: return union_values(a, b);
	}
}
// constant after static initialisation: pool workers of several callers read it concurrently
static MergeCtx make_stateless(int f) { MergeCtx m; m.mfunc = f; m.stateless = true; return m; }
static const MergeCtx g_stateless[MF_N] = { make_stateless(0), make_stateless(1), make_stateless(2), make_stateless(3), make_stateless(4) };
void *stateless_merge_ctx(int mfunc)
{
	return const_cast<MergeCtx *>(&g_stateless[((mfunc % MF_N) + MF_N) % MF_N]);
}
void merge_union_cb(void *clos, const uint8_t *key, size_t len_key, const uint8_t *v0, size_t l0,
		    const uint8_t *v1, size_t l1, uint8_t **out, size_t *lout)
{
	MergeCtx *m = (MergeCtx *)clos;	// NULL = stateless union (callbacks running on pool workers)
	int mfunc = m ? m->mfunc : MF_UNION;
	if (m && !m->stateless) {
		m->calls++;
		m->per_key[Bytes((const char *)key, len_key)]++;
		if (m->fail_at && m->calls == m->fail_at) {
			// failure is reported the way a real callback does it: return without producing a value
			// (the outputs are deliberately left untouched; the caller must have initialised them)
			m->failed_key = Bytes((const char *)key, len_key); m->fail_fired = true; return;
		}
	}
	Bytes r = fold_values(mfunc, Bytes((const char *)v0, l0), Bytes((const char *)v1, l1));
	*out = (uint8_t *)malloc(r.size() ? r.size() : 1);
	memcpy(*out, r.data(), r.size());
	*lout = r.size();
}
// stateless, and failing: refuses to merge two values that both begin with 'F' (returns without producing a value),
// otherwise folds like merge_union_cb.  For callbacks that run on pool workers.
void merge_failF_cb(void *clos, const uint8_t *key, size_t len_key, const uint8_t *v0, size_t l0,
		    const uint8_t *v1, size_t l1, uint8_t **out, size_t *lout)
{
	if (l0 > 0 && l1 > 0 && v0[0] == 'F' && v1[0] == 'F') return;
	merge_union_cb(clos, key, len_key, v0, l0, v1, l1, out, lout);
}
int dupsort_bytes_cb(void *, const uint8_t *, size_t, const uint8_t *v0, size_t l0, const uint8_t *v1, size_t l1)
{
	return mfmt::cmp(Bytes((const char *)v0, l0), Bytes((const char *)v1, l1));
}

// ------------------------------------------------- user-defined mtbl_source
// Iterators hand out a fresh heap buffer per next() and free the previous one:
// ASan turns any use of an outdated buffer by the merger into a verdict.
namespace {
struct UIter {
	const USource *s;
	size_t pos;
	int kind;
	Bytes k0, k1;
	uint8_t *kb = nullptr, *vb = nullptr;
};
bool ubound(const UIter *it, const Bytes &key)
{
	switch (it->kind) {
	case 1: return key == it->k0;
	case 2: return has_prefix(key, it->k0);
	case 3: return mfmt::cmp(key, it->k1) <= 0;
	default: return true;
	}
}
size_t ulower(const USource *s, const Bytes &k)
{
	size_t lo = 0, hi = s->ents.size();
	while (lo < hi) { size_t mid = (lo + hi) / 2; if (mfmt::cmp(s->ents[mid].first, k) < 0) lo = mid + 1; else hi = mid; }
	return lo;
}
mtbl_res uiter_next(void *v, const uint8_t **k, size_t *kl, const uint8_t **val, size_t *vl)
{
	UIter *it = (UIter *)v;
	free(it->kb); free(it->vb); it->kb = it->vb = nullptr;
	const_cast<USource *>(it->s)->next_calls++;
	if (it->pos >= it->s->ents.size() || !ubound(it, it->s->ents[it->pos].first)) { it->pos = it->s->ents.size(); return mtbl_res_failure; }
	auto &e = it->s->ents[it->pos++];
	it->kb = (uint8_t *)malloc(e.first.size() ? e.first.size() : 1); memcpy(it->kb, e.first.data(), e.first.size());
	it->vb = (uint8_t *)malloc(e.second.size() ? e.second.size() : 1); memcpy(it->vb, e.second.data(), e.second.size());
	*k = it->kb; *kl = e.first.size(); *val = it->vb; *vl = e.second.size();
	return mtbl_res_success;
}
mtbl_res uiter_seek(void *v, const uint8_t *k, size_t kl)
{
	UIter *it = (UIter *)v;
	free(it->kb); free(it->vb); it->kb = it->vb = nullptr;	// seek invalidates too
	size_t p = ulower(it->s, Bytes((const char *)k, kl));
	if (it->kind != 0) { size_t p0 = ulower(it->s, it->k0); if (p < p0) p = p0; }
	it->pos = p;
	return mtbl_res_success;
}
void uiter_free(void *v)
{
	UIter *it = (UIter *)v;
	free(it->kb); free(it->vb);
	const_cast<USource *>(it->s)->live_iters--;
	delete it;
}
mtbl_iter *umake(const USource *s, int kind, const Bytes &k0, const Bytes &k1)
{
	UIter *it = new UIter{ s, kind == 0 ? 0 : ulower(s, k0), kind, k0, k1 };
	const_cast<USource *>(s)->live_iters++;
	return mtbl_iter_init(uiter_seek, uiter_next, uiter_free, it);
}
mtbl_iter *us_iter(void *c) { return umake((USource *)c, 0, Bytes(), Bytes()); }
mtbl_iter *us_get(void *c, const uint8_t *k, size_t kl) { return umake((USource *)c, 1, Bytes((const char *)k, kl), Bytes()); }
mtbl_iter *us_prefix(void *c, const uint8_t *k, size_t kl) { return umake((USource *)c, 2, Bytes((const char *)k, kl), Bytes()); }
mtbl_iter *us_range(void *c, const uint8_t *k0, size_t l0, const uint8_t *k1, size_t l1)
{
	return umake((USource *)c, 3, Bytes((const char *)k0, l0), Bytes((const char *)k1, l1));
}
} // namespace

static void us_free(void *c) { ((USource *)c)->freed++; }
mtbl_source *usource_make(USource *s) { return mtbl_source_init(us_iter, us_get, us_prefix, us_range, us_free, s); }

// small direct writer for source tables
bool write_table(const std::string &path, const mfmt::Entries &e, int comp, size_t rint, size_t bsize)
{
	unlink(path.c_str());
	mtbl_writer_options *wo = mtbl_writer_options_init();
	mtbl_writer_options_set_compression(wo, (mtbl_compression_type)comp);
	mtbl_writer_options_set_block_size(wo, bsize);
	mtbl_writer_options_set_block_restart_interval(wo, rint);
	mtbl_writer *w = mtbl_writer_init(path.c_str(), wo);
	mtbl_writer_options_destroy(&wo);
	if (!w) return false;
	bool ok = true;
	for (auto &kv : e)
		if (mtbl_writer_add(w, (const uint8_t *)kv.first.data(), kv.first.size(), (const uint8_t *)kv.second.data(), kv.second.size()) != mtbl_res_success) ok = false;
	mtbl_writer_destroy(&w);
	return ok;
}

// ---------------------------------------------------------------- generator
static Plan gen_merge(const std::string &prop, const std::string &tier, uint64_t seed, uint64_t run)
{
	Plan p;
	p.engine = "merge"; p.prop = prop; p.tier = tier; p.seed = seed; p.run = run;
	Rng r(seed, run, 0x3e46e + (uint64_t)atoi(prop.c_str() + 1));
	KeyGen kg(r);
	size_t nsrc = r.chance(1, 12) ? 0 : r.chance(1, 8) ? 7 + r.below(8) : 1 + r.below(6);	// now and then 7..14 sources (heaps four levels deep)
	size_t U = 1 + r.below(r.chance(1, 4) ? 120 : 30);
	std::vector<Bytes> pool;
	for (size_t i = 0; i < U; i++) pool.push_back(kg.key());
	if (r.chance(1, 3)) pool.push_back(Bytes());	// the empty key
	int shape = (int)r.below(5);	// 0 random subsets 1 identical 2 disjoint 3 one key shared by all 4 some empty
	int mode = prop == "C05" ? (r.chance(1, 4) ? 6 + (int)r.below(4) : 0) : (int)r.below(10);	// <6 merge, 6..7 no merge, 8..9 no merge + dupsort
	// C05 without a merge function: "one table holding the merged content" is only defined when no key occurs twice,
	// so those plans use sources with disjoint key sets
	bool c05_nomerge = prop == "C05" && mode >= 6;
	// ... or, in half of them, any key sets (and sources that repeat keys): then the merged content is a multiset and the
	// history is checked run by run - after seek(k) every entry with key >= k comes out, all copies of each key
	bool c05_multiset = c05_nomerge && r.chance(1, 2);
	if (c05_nomerge && !c05_multiset) shape = 2;
	if (c05_multiset) p.seti("mhist", 1);
	p.seti("mode", mode < 6 ? (r.chance(1, 6) ? 3 : 0) : mode < 8 ? 1 : 2);	// 0 merge, 1 none, 2 none + dupsort, 3 merge + dupsort
	int mfunc = r.chance(3, 5) ? MF_UNION : 1 + (int)r.below(MF_N - 1);
	p.seti("mfunc", mfunc);
	p.seti("nsrc_user", 0);
	for (size_t s = 0; s < nsrc; s++) {
		bool user = r.chance(1, 3);
		p.op("src", { std::to_string(s), user ? "user" : "table", std::to_string(r.below(6)), std::to_string(1 + r.below(8)) });
		if (shape == 4 && r.chance(1, 2)) continue;	// empty source
		for (size_t i = 0; i < pool.size(); i++) {
			bool take;
			switch (shape) {
			case 1: take = true; break;
			case 2: take = (i % nsrc) == s; break;
			case 3: take = i == 0 || r.chance(1, 4); break;
			default: take = r.chance(1, 2);
			}
			if (take) {
				if (mfunc == MF_UNION) p.op("ent", { std::to_string(s), spec_of(pool[i]), std::to_string(r.chance(1, 20) ? 1 + r.below(300) : 0) });
				else { Bytes v = "val"; size_t n = r.below(12); for (size_t q = 0; q < n; q++) v.push_back((char)('a' + r.below(3))); if (r.chance(1, 4)) v = kg.value(100); p.op("ent", { std::to_string(s), spec_of(pool[i]), "0", spec_of(v) }); }
				// a user-defined source may hold the same key more than once (as a merger without merge function does)
				if (user && (!c05_nomerge || c05_multiset) && r.chance(1, 8)) {
					size_t nd = 1 + r.below(3);
					for (size_t d = 0; d < nd; d++) {
						Bytes v = "dup"; size_t n = r.below(6); for (size_t q = 0; q < n; q++) v.push_back((char)('a' + r.below(3)));
						p.op("dupent", { std::to_string(s), spec_of(pool[i]), "0", spec_of(v) });
					}
				}
			}
		}
	}
	// the first `nest` sources sit behind an inner merger with the same options, which is then one source of the outer one
	p.seti("nest", nsrc >= 2 && r.chance(1, 4) ? 2 + r.below(nsrc - 1) : 0);
	if (prop == "C04") {
		uint64_t d = r.below(20);
		p.seti("observe", d < 14 ? 0 : d < 18 ? 1 : 2);	// 0 iterate, 1 mtbl_source_write, 2 src/mtbl_merge
		p.seti("twin", r.chance(1, 4) ? 1 : 0);
		p.seti("tool_c", r.below(6));
		p.seti("tool_l", r.chance(1, 2) ? -999 : (long long)r.below(25) - 3);
		{ static const long long bs[] = { 0, 1024, 4096, 65536, -1024, -8192, 100 }; p.seti("tool_b", bs[r.below(7)]); }
		p.seti("tool_t", r.chance(1, 2) ? -1 : (long long)r.below(5));
		if (p.geti("mode") == 0 && r.chance(1, 4)) p.seti("mergefail", 1 + r.below(12));
		else p.seti("mergefail", 0);
	} else {
		p.seti("observe", 0);
		p.seti("mergefail", 0);
		int nops = 5 + (int)r.below(70);
		if (c05_multiset) {
			// one iterator over the whole merger: next n / seek target
			for (int i = 0; i < nops; i++) {
				char t[48];
				if (r.chance(3, 5)) p.op("mnext", { std::to_string(r.chance(2, 3) ? 1 : 1 + r.below(6)) });
				else {
					uint64_t d = r.below(100);
					if (d < 50) snprintf(t, sizeof t, "@cur:%d", r.chance(4, 5) ? 0 : (int)r.below(8));
					else if (d < 56) snprintf(t, sizeof t, "@end");
					else snprintf(t, sizeof t, "@k%d:%d", (int)r.below(400), r.chance(1, 2) ? 0 : (int)r.below(8));
					p.op("mseek", { t });
				}
			}
			nops = 0;
		}
		if (nops && r.chance(1, tier == "thorough" ? 25 : 150)) { p.op("sweepseek", { std::to_string(r.chance(1, 2) ? 0 : r.below(4)), "30" }); nops = 0; }
		bool open[4] = { false, false, false, false };
		auto target = [&](bool cur) {
			char t[48];
			uint64_t d = r.below(100);
			int m = (int)r.below(8);
			if (cur && d < 45) { snprintf(t, sizeof t, "@cur:%d", r.chance(3, 5) ? 0 : m); return std::string(t); }
			if (d < 52) return std::string("@end");
			if (d < 97) { snprintf(t, sizeof t, "@k%d:%d", (int)r.below(400), r.chance(1, 2) ? 0 : m); return std::string(t); }
			return std::string("x");
		};
		for (int i = 0; i < nops; i++) {
			int s = (int)r.below(r.chance(1, 2) ? 2 : 4);
			uint64_t d = r.below(100);
			if (d < 10) { int kind = 1 + (int)r.below(3); p.op("q", { std::to_string(kind), target(false), kind == 3 ? target(false) : "x" }); }
			else if (!open[s] || d < 18) {
				int kind = r.chance(1, 2) ? 0 : (int)r.below(4);
				p.op("open", { std::to_string(s), std::to_string(kind), target(false), kind == 3 ? target(false) : "x" });
				open[s] = true;
			} else if (d < 58) p.op("next", { std::to_string(s), std::to_string(r.chance(2, 3) ? 1 : 1 + r.below(8)) });
			else if (d < 94) p.op("seek", { std::to_string(s), target(true) });
			else { p.op("close", { std::to_string(s) }); open[s] = false; }
		}
	}
	return p;
}

// ----------------------------------------------------------------- executor
bool mergeworld_build(const Plan &p, RunResult &res, MergeWorld &w, const std::string &dir)
{
	for (auto &o : p.ops) {
		if (o.name == "src") {
			size_t id = (size_t)o.argi(0);
			if (id >= 16) continue;
			if (w.srcs.size() <= id) w.srcs.resize(id + 1);
			w.srcs[id].used = true;
			w.srcs[id].user = o.arg(1) == "user";
			w.srcs[id].comp = (int)(o.argi(2) % 6);
			w.srcs[id].rint = (size_t)(o.argi(3) > 0 ? o.argi(3) : 1);
		} else if (o.name == "ent") {
			size_t id = (size_t)o.argi(0);
			if (id >= w.srcs.size() || !w.srcs[id].used) continue;
			Bytes k = o.argb(1);
			char t[64]; snprintf(t, sizeof t, "s%zuk%zu", id, w.srcs[id].ents.size());
			Bytes v = t;
			if (o.argi(2) > 0) v.append((size_t)o.argi(2), '.');	// long token: values larger than a few bytes
			v.push_back('\n');
			if (w.mfunc != MF_UNION && o.a.size() > 3) v = o.argb(3);
			w.srcs[id].ents[k] = v;
		} else if (o.name == "dupent") {
			size_t id = (size_t)o.argi(0);
			if (id >= w.srcs.size() || !w.srcs[id].used || !w.srcs[id].user) continue;
			Bytes k = o.argb(1);
			if (!w.srcs[id].ents.count(k)) continue;	// only ever an additional copy of a key the source holds
			Bytes v;
			if (w.mfunc == MF_UNION) { char t[64]; snprintf(t, sizeof t, "s%zud%zu\n", id, w.srcs[id].extra.size()); v = t; }
			else v = o.argb(3);
			w.srcs[id].extra.push_back({ k, v });
		}
	}
	size_t i = 0;
	for (auto &s : w.srcs) {
		if (!s.used) { i++; continue; }
		mfmt::Entries e(s.ents.begin(), s.ents.end());
		if (s.user && !s.extra.empty()) {
			e.insert(e.end(), s.extra.begin(), s.extra.end());
			// a source is a sorted stream: by key, copies of one key in dupsort (value) order
			std::stable_sort(e.begin(), e.end(), [](const std::pair<Bytes, Bytes> &a, const std::pair<Bytes, Bytes> &b) {
				int c = mfmt::cmp(a.first, b.first);
				return c ? c < 0 : mfmt::cmp(a.second, b.second) < 0;
			});
			res.probes["source-with-repeated-keys"]++;
		}
		if (s.user) {
			s.us.ents = e;
			s.src = usource_make(&s.us);
			s.own_source = true;
			res.probes["user-defined-source"]++;
		} else {
			s.path = dir + "/src" + std::to_string(i) + ".mtbl";
			if (!write_table(s.path, e, s.comp, s.rint, 1024)) { res.fail("INFRA", "write_table", "cannot write source table"); return false; }
			s.reader = mtbl_reader_init(s.path.c_str(), nullptr);
			if (!s.reader) { res.fail("INFRA", "reader_init", "cannot open source table"); return false; }
			s.src = mtbl_reader_source(s.reader);
		}
		if (e.empty()) res.probes["empty-source"]++;
		for (auto &kv : e) {
			w.occ[kv.first]++; w.all.push_back({ kv.first, kv.second });
			auto f = w.merged.find(kv.first);
			if (f == w.merged.end()) w.merged[kv.first] = kv.second;
			else f->second = fold_values(w.mfunc, f->second, kv.second);
		}
		i++;
	}
	for (auto &kv : w.occ) {
		if (kv.second >= 2) w.shared_keys++;
		if (kv.first.empty()) res.probes["empty-key-present"]++;
	}
	return true;
}

void mergeworld_destroy(MergeWorld &w)
{
	for (auto &s : w.srcs) {
		if (s.reader) mtbl_reader_destroy(&s.reader);
		if (s.own_source && s.src) { mtbl_source *m = const_cast<mtbl_source *>(s.src); mtbl_source_destroy(&m); if (s.us.freed != 1) w.free_cb_wrong++; }
		s.src = nullptr;
	}
}

static RunResult exec_merge(const Plan &p)
{
	RunResult res;
	MergeWorld w;
	w.mfunc = (int)(p.geti("mfunc", 0) % MF_N);
	std::string dir = scratch_dir();
	if (!mergeworld_build(p, res, w, dir)) return res;
	int mode = (int)p.geti("mode", 0);
	int observe = (int)p.geti("observe", 0);
	MergeCtx mc;
	mc.mfunc = w.mfunc;
	res.probes[std::string("merge-func-") + "umlxs"[w.mfunc]]++;
	mc.fail_at = (uint64_t)p.geti("mergefail", 0);
	if (observe != 0) mc.fail_at = 0;
	bool all_tables = true;
	size_t nsrc = 0;
	for (auto &s : w.srcs) if (s.used) { nsrc++; if (s.user) all_tables = false; }
	if (observe == 2 && (!all_tables || nsrc == 0 || mode != 0 || mc.fail_at || w.mfunc != MF_UNION)) observe = 0;
	res.ev.u(nsrc); res.ev.u(mode); res.ev.u(observe);

	if (mode == 3) { res.probes["merge-with-dupsort"]++; }
	auto make_merger = [&]() {
		mtbl_merger_options *mo = mtbl_merger_options_init();
		if (mode == 0 || mode == 3) mtbl_merger_options_set_merge_func(mo, merge_union_cb, &mc);
		if (mode == 2 || mode == 3) mtbl_merger_options_set_dupsort_func(mo, dupsort_bytes_cb, nullptr);
		mtbl_merger *mm = mtbl_merger_init(mo);
		mtbl_merger_options_destroy(&mo);
		return mm;
	};
	mtbl_merger *m = make_merger();
	// nested: the first `nest` sources are merged by an inner merger (same options) that is one source of the outer
	// one; the expected output is the same (the folds are associative and commutative, the dupsort order is global),
	// but the outer merger now meets a source that can yield one key several times in a row
	size_t nest = observe == 2 ? 0 : (size_t)p.geti("nest", 0);
	if (nest > nsrc) nest = nsrc;
	mtbl_merger *inner = nullptr;
	if (nest >= 2) {
		inner = make_merger();
		res.probes["nested-merger-as-source"]++;
		mc.fail_at = 0;	// the inner merger folds ahead of the outer one: which next() meets the failing call is not predictable
	}
	if (mode == 3) mode = 0;	// same expected output as plain merging: the fold is order-independent
	{
		size_t k = 0;
		for (auto &s : w.srcs) if (s.used) { mtbl_merger_add_source(inner && k < nest ? inner : m, s.src); k++; }
		if (inner) mtbl_merger_add_source(m, mtbl_merger_source(inner));
	}
	const mtbl_source *msrc = mtbl_merger_source(m);

	if (p.prop == "C05" && mode != 0 && p.geti("mhist", 0)) {
		// ---- no merge function, keys may repeat: a next/seek history on one iterator, judged per run of equal keys
		res.probes["merger-multiset-history"]++;
		std::vector<std::pair<Bytes, Bytes>> all = w.all;
		std::stable_sort(all.begin(), all.end(), [](const std::pair<Bytes, Bytes> &a, const std::pair<Bytes, Bytes> &b) {
			int c = mfmt::cmp(a.first, b.first);
			return c ? c < 0 : mfmt::cmp(a.second, b.second) < 0;
		});
		auto lower = [&](const Bytes &k) { size_t lo = 0, hi = all.size(); while (lo < hi) { size_t mid = (lo + hi) / 2; if (mfmt::cmp(all[mid].first, k) < 0) lo = mid + 1; else hi = mid; } return lo; };
		Client cl(res, w.merged, msrc, nullptr, "MERGER-");	// for target resolution only
		mtbl_iter *it = mtbl_source_iter(msrc);
		size_t expect = 0;		// index in `all` of the first entry of the run that must come next
		bool in_run = false, ended = false, any_seek = false, seek_in_run = false;
		Bytes run_key, last;
		std::vector<Bytes> got;		// values of the current run
		auto close_run = [&](const char *when) {
			if (!in_run) return;
			std::vector<Bytes> want;
			for (size_t i = expect; i < all.size() && all[i].first == run_key; i++) want.push_back(all[i].second);
			std::vector<Bytes> g = got;
			std::sort(g.begin(), g.end(), bytes_less);
			if (g != want) res.fail("MODEL", "MERGER-MULTI-run-incomplete", std::string(when) + ": key " + short_repr(run_key) + " came out " + std::to_string(g.size()) + " times, the sources hold it " + std::to_string(want.size()) + " times");
			expect += want.size();
			in_run = false; got.clear();
		};
		size_t opi = 0;
		for (auto &o : p.ops) {
			opi++;
			if (res.viol) break;
			if (o.name == "mseek") {
				ClientSlot tmp; tmp.cur = last;
				Bytes t = cl.resolve(o.arg(0), &tmp);
				if (in_run) seek_in_run = true;
				in_run = false; got.clear(); ended = false;	// an interrupted run is not judged
				mtbl_res sr;
				{ TmpKey tk(t); sr = mtbl_iter_seek(it, tk.p, tk.n); }
				if (sr != mtbl_res_success) { res.fail("MODEL", "MERGER-MULTI-seek-failed", "seek(" + short_repr(t) + ") failed"); break; }
				expect = lower(t);
				any_seek = true;
				res.ev.b(t);
			} else if (o.name == "mnext") {
				for (long long n = o.argi(0, 1); n > 0 && !res.viol; n--) {
					const uint8_t *k, *v; size_t kl, vl;
					mtbl_res r = mtbl_iter_next(it, &k, &kl, &v, &vl);
					res.ev.u(r == mtbl_res_success);
					if (r != mtbl_res_success) {
						close_run("at the end");
						if (!res.viol && expect < all.size()) res.fail("MODEL", "MERGER-MULTI-next-missing", "next failed, the model expects key " + short_repr(all[expect].first));
						ended = true;
						break;
					}
					Bytes gk((const char *)k, kl), gv((const char *)v, vl);
					res.ev.b(gk);
					if (ended) { res.fail("MODEL", "MERGER-MULTI-not-sticky", "next returned " + short_repr(gk) + " after it had failed"); break; }
					if (in_run && gk != run_key) close_run("when the next key appeared");
					if (res.viol) break;
					if (!in_run) {
						if (expect >= all.size() || gk != all[expect].first) { res.fail("MODEL", "MERGER-MULTI-wrongkey", "next returned key " + short_repr(gk) + ", the model expects " + (expect < all.size() ? short_repr(all[expect].first) : std::string("the end"))); break; }
						in_run = true; run_key = gk;
					}
					if (mode == 2 && !got.empty() && mfmt::cmp(got.back(), gv) > 0) { res.fail("MODEL", "MERGER-MULTI-dupsort-order", "copies of key " + short_repr(gk) + " are not in dupsort order"); break; }
					got.push_back(gv);
					last = gk;
				}
			}
		}
		mtbl_iter_destroy(&it);
		if (seek_in_run) res.probes["seek-inside-a-run-of-equal-keys"]++;
		res.nontrivial = w.shared_keys >= 1 && nsrc >= 2 && any_seek;
	} else if (p.prop == "C05" && mode != 0 && w.shared_keys > 0) {
		res.unjudged["c05-no-merge-function-with-repeated-keys"]++;	// not generated; a hand-edited plan
	} else if (p.prop == "C05") {
		if (mode != 0) res.probes["merger-without-merge-function"]++;
		Client cl(res, w.merged, msrc, nullptr, "MERGER-");
		size_t opi = 0;
		for (auto &o : p.ops) {
			opi++;
			if (res.viol) break;
			if (o.name == "src" || o.name == "ent") continue;
			cl.op(o, opi);
		}
		cl.close_all();
		res.nontrivial = w.shared_keys >= 1 && nsrc >= 2 && cl.had_any_seek;
		if (w.shared_keys) res.probes["keys-needing-merge"] += w.shared_keys;
	} else if (observe == 0) {
		// ---- full iteration
		mtbl_iter *it = mtbl_source_iter(msrc);
		// twin: a second iterator of the same merger is alive and advanced in step (one entry behind); both must see the
		// whole merged content - iterators of one merger share nothing a caller could see
		bool twin = mode == 0 && p.geti("twin", 0) && !mc.fail_at;
		mtbl_iter *it2 = twin ? mtbl_source_iter(msrc) : nullptr;
		auto pos2 = w.merged.begin();
		if (twin) res.probes["two-iterators-of-one-merger-in-step"]++;
		if (mode == 0) {
			auto pos = w.merged.begin();
			uint64_t calls_before = 0;
			size_t n = 0;
			for (;;) {
				const uint8_t *k, *v; size_t kl, vl;
				mtbl_res r = mtbl_iter_next(it, &k, &kl, &v, &vl);
				res.ev.u(r == mtbl_res_success);
				if (pos == w.merged.end()) {
					if (r == mtbl_res_success) res.fail("MODEL", "MERGE-extra", "merger returned key " + short_repr(Bytes((const char *)k, kl)) + " after all " + std::to_string(n) + " distinct keys");
					break;
				}
				uint64_t need = w.occ[pos->first] - 1;
				if (mc.fail_at && calls_before < mc.fail_at && calls_before + need >= mc.fail_at) {
					// the injected failure falls into the fold of this key
					if (r == mtbl_res_success) res.fail("MODEL", "MERGE-failure-swallowed", "merge callback reported failure while folding key " + short_repr(pos->first) + " but next() returned success");
					else res.probes["merge-failure-propagated"]++;
					res.faults["merge-callback-fails"]++;
					break;	// later calls are unspecified: none issued
				}
				if (r != mtbl_res_success) { res.fail("MODEL", "MERGE-missing", "merger ended after " + std::to_string(n) + " keys; model expects key " + short_repr(pos->first) + " next"); break; }
				Bytes gk((const char *)k, kl), gv((const char *)v, vl);
				res.ev.b(gk); res.ev.b(gv);
				if (gk != pos->first) { res.fail("MODEL", mfmt::cmp(gk, pos->first) > 0 ? "MERGE-key-dropped" : "MERGE-key-order", "merger returned key " + short_repr(gk) + ", model expects " + short_repr(pos->first)); break; }
				if (gv != pos->second) { res.fail("MODEL", "MERGE-value", "key " + short_repr(gk) + ": value " + short_repr(gv) + " is not the fold of exactly the source values " + short_repr(pos->second)); break; }
				calls_before += need;
				if (twin && n >= 1 && !res.viol) {
					const uint8_t *k2, *v2; size_t kl2, vl2;
					if (mtbl_iter_next(it2, &k2, &kl2, &v2, &vl2) != mtbl_res_success) { res.fail("MODEL", "MERGE-twin-missing", "second iterator of the same merger ended early, model expects key " + short_repr(pos2->first)); break; }
					Bytes gk2((const char *)k2, kl2), gv2((const char *)v2, vl2);
					if (gk2 != pos2->first || gv2 != pos2->second) { res.fail("MODEL", "MERGE-twin-value", "second iterator of the same merger returned " + short_repr(gk2) + " = " + short_repr(gv2) + ", model expects " + short_repr(pos2->first) + " = " + short_repr(pos2->second)); break; }
					++pos2;
					// and the entry the first iterator handed out must still be intact (its buffers are its own)
					if (Bytes((const char *)k, kl) != gk || Bytes((const char *)v, vl) != gv) { res.fail("MODEL", "MERGE-twin-clobbered", "the entry returned by one iterator changed when another iterator of the same merger was advanced (key " + short_repr(gk) + ")"); break; }
				}
				if (!inner && !twin && mc.calls != calls_before) { res.fail("MODEL", "MERGE-callcount", "after key " + short_repr(gk) + " the merge callback ran " + std::to_string(mc.calls) + " times, expected " + std::to_string(calls_before)); break; }
				++pos; ++n;
			}
			if (inner && !twin && !res.viol && pos == w.merged.end() && mc.calls != calls_before)
				res.fail("MODEL", "MERGE-callcount", "nested mergers: the merge callback ran " + std::to_string(mc.calls) + " times in total, expected " + std::to_string(calls_before));
		} else {
			// no merge function: every source entry, ascending by key; equal keys by dupsort or as a multiset
			std::vector<std::pair<Bytes, Bytes>> want = w.all;
			std::stable_sort(want.begin(), want.end(), [](const std::pair<Bytes, Bytes> &a, const std::pair<Bytes, Bytes> &b) {
				int c = mfmt::cmp(a.first, b.first);
				return c ? c < 0 : mfmt::cmp(a.second, b.second) < 0;
			});
			std::vector<std::pair<Bytes, Bytes>> got;
			for (;;) {
				const uint8_t *k, *v; size_t kl, vl;
				if (mtbl_iter_next(it, &k, &kl, &v, &vl) != mtbl_res_success) break;
				got.push_back({ Bytes((const char *)k, kl), Bytes((const char *)v, vl) });
				res.ev.b(got.back().first);
				if (got.size() > want.size() + 2) break;
			}
			if (mc.calls) res.fail("MODEL", "NOMERGE-callback", "merge callback invoked although none was configured");
			bool order_ok = true;
			for (size_t i = 1; i < got.size(); i++) {
				int c = mfmt::cmp(got[i - 1].first, got[i].first);
				if (c > 0 || (c == 0 && mode == 2 && mfmt::cmp(got[i - 1].second, got[i].second) > 0)) order_ok = false;
			}
			if (!order_ok) res.fail("MODEL", mode == 2 ? "NOMERGE-dupsort-order" : "NOMERGE-order", "entries not in ascending (key" + std::string(mode == 2 ? ", dupsort" : "") + ") order");
			auto sorted = got;
			std::stable_sort(sorted.begin(), sorted.end(), [](const std::pair<Bytes, Bytes> &a, const std::pair<Bytes, Bytes> &b) {
				int c = mfmt::cmp(a.first, b.first);
				return c ? c < 0 : mfmt::cmp(a.second, b.second) < 0;
			});
			if (sorted != want) res.fail("MODEL", got.size() < want.size() ? "NOMERGE-dropped" : "NOMERGE-content", "merger without merge function returned " + std::to_string(got.size()) + " entries, the sources hold " + std::to_string(want.size()));
			if (mode == 2) res.probes["dupsort-run"]++;
		}
		mtbl_iter_destroy(&it);
		if (it2) mtbl_iter_destroy(&it2);
	} else if (observe == 1) {
		// ---- mtbl_source_write into a real writer, then read back
		std::string out = dir + "/merged.mtbl";
		unlink(out.c_str());
		mtbl_writer *wr = mtbl_writer_init(out.c_str(), nullptr);
		mtbl_res r = mtbl_source_write(msrc, wr);
		mtbl_writer_destroy(&wr);
		res.probes["source-write-run"]++;
		bool dup_keys = mode != 0 && w.shared_keys > 0;
		bool expect_fail = dup_keys || (mc.fail_at && mc.fail_fired);
		if (mc.fail_at && mc.fail_fired) res.faults["merge-callback-fails"]++;
		// (with duplicate keys and no merge function the writer's gate refuses the second copy: failure is the specified outcome)
		if (!expect_fail) {
			if (r != mtbl_res_success) res.fail("MODEL", "SWRITE-failed", "mtbl_source_write failed on a mergeable source set");
			mtbl_reader *rd = mtbl_reader_init(out.c_str(), nullptr);
			if (!rd) res.fail("MODEL", "SWRITE-unreadable", "output of mtbl_source_write does not open");
			else {
				TableModel want = new_model();
				if (mode == 0) want = w.merged; else for (auto &kv : w.all) want[kv.first] = kv.second;
				Client cl(res, want, mtbl_reader_source(rd), nullptr, "SWRITE-");
				cl.query(0, Bytes(), Bytes(), 0);
				mtbl_reader_destroy(&rd);
			}
		} else if (dup_keys && !mc.fail_fired && r == mtbl_res_success) {
			// the same key twice in a row reached the writer: its gate must have refused the copy
			res.fail("MODEL", "SWRITE-accepted-repeated-key", "mtbl_source_write reported success although the merger (no merge function) yields a key more than once");
		} else if (mc.fail_fired && r == mtbl_res_success) {
			// a failed fold must not be reported as a complete copy: the output must lack the failed key
			res.probes["swrite-after-merge-failure"]++;
		}
	} else {
		// ---- src/mtbl_merge with the union DSO
		std::string out = dir + "/tool.mtbl";
		unlink(out.c_str());
		// the tool's own options: compression (-c name), level (-l), block size (-b or the environment, never both),
		// compression threads (-t: the tool then runs a real pool; its output must not depend on that)
		static const char *cname[] = { "none", "snappy", "zlib", "lz4", "lz4hc", "zstd" };
		std::vector<std::string> av{ tool_path("mtbl_merge") };
		std::vector<std::string> tenv{ "MTBL_MERGE_DSO=" + tool_path("merge_union.so"), "MTBL_MERGE_FUNC_PREFIX=union" };
		long long tc = p.geti("tool_c", 1), tl = p.geti("tool_l", -999), tb = p.geti("tool_b", 0), tt = p.geti("tool_t", -1);
		av.push_back("-c"); av.push_back(cname[(size_t)(tc % 6 + 6) % 6]);
		if (tl != -999) { av.push_back("-l"); av.push_back(std::to_string(tl)); }
		if (tb > 0) { av.push_back("-b"); av.push_back(std::to_string(tb)); }
		else if (tb < 0) tenv.push_back("MTBL_MERGE_BLOCK_SIZE=" + std::to_string(-tb));
		if (tt >= 0) { av.push_back("-t"); av.push_back(std::to_string(tt)); res.probes["mtbl_merge-with-threads"]++; }
		for (auto &s : w.srcs) if (s.used) av.push_back(s.path);
		av.push_back(out);
		Bytes so, se;
		int st = run_cmd(av, &so, &se, tenv);
		res.probes["mtbl_merge-run"]++;
		if (st != 0) res.fail("TOOL", "MERGE-TOOL-status", "mtbl_merge exited with " + std::to_string(st) + ": " + se.substr(0, 300));
		else {
			mtbl_reader *rd = mtbl_reader_init(out.c_str(), nullptr);
			if (!rd) res.fail("TOOL", "MERGE-TOOL-unreadable", "output of mtbl_merge does not open");
			else {
				Client cl(res, w.merged, mtbl_reader_source(rd), nullptr, "MERGE-TOOL-");
				cl.query(0, Bytes(), Bytes(), 0);
				mtbl_reader_destroy(&rd);
			}
		}
	}
	mtbl_merger_destroy(&m);
	if (inner) mtbl_merger_destroy(&inner);
	for (auto &s : w.srcs) if (s.user && s.us.live_iters != 0) res.fail("MODEL", "ITER-LEAK", "merger left " + std::to_string(s.us.live_iters) + " source iterators alive after its iterators were destroyed");
	mergeworld_destroy(w);
	if (w.free_cb_wrong) res.fail("LEAK", "SOURCE-free-callback", "mtbl_source_destroy did not run the free callback of a user-defined source exactly once");
	if (p.prop == "C04") res.nontrivial = nsrc >= 2 && w.shared_keys >= 1;
	if (w.shared_keys) res.probes["keys-shared-by-sources"] += w.shared_keys;
	return res;
}

extern const Engine engine_merge = { "merge", gen_merge, exec_merge };
