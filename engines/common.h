// Shared infrastructure of the simulation engines: plans (data, printable,
// replayable), byte-string specs, event log fingerprint, run results.
#pragma once
#include <cstdint>
#include <cstdio>
#include <cstdlib>
#include <cstring>
#include <map>
#include <string>
#include <vector>
#include "../sim/prng.h"
#include "../model/mtblfmt.h"

typedef std::string Bytes;
typedef std::map<Bytes, Bytes, bool (*)(const Bytes &, const Bytes &)> TableModel;
inline bool bytes_less(const Bytes &a, const Bytes &b) { return mfmt::cmp(a, b) < 0; }
inline TableModel new_model() { return TableModel(bytes_less); }
// A caller's key argument that lives only for the duration of the call: an exact-size heap copy that is
// scribbled over and freed when the call has returned (applications pass temporaries; the library must have
// taken its own copy by then - under ASan a borrowed pointer is a heap-use-after-free, elsewhere wrong answers).
struct TmpKey {
	uint8_t *p; size_t n;
	explicit TmpKey(const Bytes &b) : p((uint8_t *)malloc(b.size() ? b.size() : 1)), n(b.size()) { if (n) memcpy(p, b.data(), n); }
	~TmpKey() { for (size_t i = 0; i < n; i++) p[i] = (uint8_t)~p[i]; free(p); }
	TmpKey(const TmpKey &) = delete; TmpKey &operator=(const TmpKey &) = delete;
};
inline bool has_prefix(const Bytes &k, const Bytes &p) { return k.size() >= p.size() && memcmp(k.data(), p.data(), p.size()) == 0; }

// ---------------------------------------------------------------- byte specs
// A byte string in a plan is a '+'-joined list of parts:
//   x<hex>            literal bytes (x alone = empty)
//   c<len>x<hh>       <len> copies of byte hh
//   p<len>s<seed>     <len> pseudo-random bytes from <seed>
std::string hex(const Bytes &b);
Bytes unhex(const std::string &h);
Bytes spec_bytes(const std::string &spec);
inline std::string lit(const Bytes &b) { return "x" + hex(b); }
std::string short_repr(const Bytes &b);	// for messages: hex, abbreviated when long

// --------------------------------------------------------------------- plans
struct Op {
	std::string name;
	std::vector<std::string> a;
	const std::string &arg(size_t i) const { static const std::string e; return i < a.size() ? a[i] : e; }
	long long argi(size_t i, long long def = 0) const { return i < a.size() ? atoll(a[i].c_str()) : def; }
	Bytes argb(size_t i) const { return i < a.size() ? spec_bytes(a[i]) : Bytes(); }
};

struct Plan {
	std::string engine, prop, tier;
	uint64_t seed = 1, run = 0;
	std::vector<std::pair<std::string, std::string>> cfg;	// ordered
	std::vector<Op> ops;

	void set(const std::string &k, const std::string &v);
	void seti(const std::string &k, long long v) { set(k, std::to_string(v)); }
	std::string gets(const std::string &k, const std::string &def = "") const;
	long long geti(const std::string &k, long long def = 0) const;
	void op(const std::string &name, std::initializer_list<std::string> args = {}) { ops.push_back(Op{ name, args }); }
	std::string str() const;
	static bool parse(const std::string &text, Plan &out, std::string *err = nullptr);
};

// ----------------------------------------------------------------- event log
struct EvLog {
	uint64_t h = 1469598103934665603ULL;
	void u(uint64_t v) { for (int i = 0; i < 8; i++) { h = (h ^ ((v >> (8 * i)) & 0xFF)) * 1099511628211ULL; } }
	void b(const Bytes &s) { u(s.size()); for (unsigned char c : s) h = (h ^ c) * 1099511628211ULL; }
	void s(const char *t) { while (*t) h = (h ^ (unsigned char)*t++) * 1099511628211ULL; }
};

// ------------------------------------------------------------------- results
struct RunResult {
	bool viol = false;
	std::string vclass, site, detail;	// class e.g. MODEL / FORMAT / LEAK ; site = stable id used for shrinking
	EvLog ev;
	bool nontrivial = false;
	uint64_t sched_hash = 0, steps = 0, sim_ns = 0, abs_states = 0;
	std::map<std::string, uint64_t> probes;	// "rare condition was hit" counters
	std::map<std::string, uint64_t> faults;	// fault kinds that actually fired
	std::map<std::string, uint64_t> unjudged;	// aborted histories that the property does not judge
	void fail(const std::string &cls, const std::string &st, const std::string &dt)
	{
		if (viol) return;	// first violation wins
		viol = true; vclass = cls; site = st; detail = dt;
	}
	std::string line(uint64_t idx) const;
};

// every engine: generate a plan from (prop, tier, seed, run) and execute a plan
struct Engine {
	const char *name;
	Plan (*gen)(const std::string &prop, const std::string &tier, uint64_t seed, uint64_t run);
	RunResult (*exec)(const Plan &p);
};
const Engine *find_engine(const std::string &name);
extern const Engine engine_table, engine_merge, engine_sorter, engine_fileset, engine_corrupt, engine_sched,
    engine_leak, engine_wfault;

// ------------------------------------------------------------------- scratch
const std::string &scratch_dir();	// /dev/shm/mtblsim.<pid>/ , created on first use
void scratch_clean();			// remove everything inside
void scratch_remove();			// remove the directory itself (atexit)
Bytes read_file(const std::string &path, bool *ok = nullptr);
bool write_file(const std::string &path, const Bytes &data);
std::string tool_path(const char *name);	// build/tools/<name>
// run a command, capture stdout (stderr discarded or captured), returns exit status (or -signal)
int run_cmd(const std::vector<std::string> &argv, Bytes *out, Bytes *errout = nullptr,
	    const std::vector<std::string> &env = {});

// ------------------------------------------------------------ key generators
struct KeyGen {
	// families of keys that stress prefix compression, separators, varint boundaries
	Rng &r;
	int alphabet;		// 1..256
	int family;
	KeyGen(Rng &rr);
	Bytes key();
	Bytes value(int big_pm);
	Bytes neighbour(const Bytes &k);	// predecessor / successor / prefix / extension of k
};
std::string spec_of(const Bytes &b);	// compact spec (uses c<len>x<hh> for runs)

// scheduler config <-> plan string
struct sim_sched_cfg;
std::string sched_cfg_gen(Rng &r, uint64_t expected_steps);
void sched_cfg_parse(const std::string &s, sim_sched_cfg *out);

// ---- which of the scheduler's start routines are pool workers?
// By the symbol name of the start routine (read from the executable's own .symtab): `thread_worker` is a pool worker,
// `result_worker` a result handler.  If the library ever names them differently the exact rule cannot be applied and
// only the sound total holds: live threads <= 1 + caller tasks + result handlers + configured workers.
struct sim_sched_stats;
std::string symbol_of(const void *fn);
struct PoolThreads { bool named = false; uint32_t worker_max = 0, workers_created = 0; };
PoolThreads pool_threads(const sim_sched_stats &st);
// "" or a description of the violated bound
std::string worker_bound_broken(const sim_sched_stats &st, uint32_t limit, uint32_t ntasks, uint32_t nhandlers);

