#include "common.h"
#include "../sim/simsched.h"
#include <dirent.h>
#include <fcntl.h>
#include <sstream>
#include <sys/stat.h>
#include <sys/wait.h>
#include <unistd.h>
#include <poll.h>
#include <spawn.h>
extern char **environ;
#include <dlfcn.h>
#include <elf.h>
#include <string.h>

// ---------------------------------------------------------------- byte specs
std::string hex(const Bytes &b)
{
	static const char *d = "0123456789abcdef";
	std::string o;
	o.reserve(b.size() * 2);
	for (unsigned char c : b) { o.push_back(d[c >> 4]); o.push_back(d[c & 15]); }
	return o;
}
static int hv(char c) { return c >= '0' && c <= '9' ? c - '0' : c >= 'a' && c <= 'f' ? c - 'a' + 10 : c >= 'A' && c <= 'F' ? c - 'A' + 10 : 0; }
Bytes unhex(const std::string &h)
{
	Bytes o;
	for (size_t i = 0; i + 1 < h.size(); i += 2) o.push_back((char)(hv(h[i]) << 4 | hv(h[i + 1])));
	return o;
}
Bytes spec_bytes(const std::string &spec)
{
	Bytes out;
	size_t i = 0;
	while (i < spec.size()) {
		size_t j = spec.find('+', i);
		if (j == std::string::npos) j = spec.size();
		std::string part = spec.substr(i, j - i);
		if (!part.empty()) {
			if (part[0] == 'x') out += unhex(part.substr(1));
			else if (part[0] == 'c') {
				size_t x = part.find('x');
				size_t len = strtoull(part.c_str() + 1, nullptr, 10);
				int byte = x == std::string::npos ? 0 : (int)strtoul(part.c_str() + x + 1, nullptr, 16);
				out.append(len, (char)byte);
			} else if (part[0] == 'p') {
				size_t s = part.find('s');
				size_t len = strtoull(part.c_str() + 1, nullptr, 10);
				uint64_t seed = s == std::string::npos ? 0 : strtoull(part.c_str() + s + 1, nullptr, 10);
				prng g; prng_seed(&g, seed, 0xb17e5, 5);
				for (size_t k = 0; k < len; k++) out.push_back((char)(prng_next(&g) >> 33));
			}
		}
		i = j + 1;
	}
	return out;
}
std::string short_repr(const Bytes &b)
{
	if (b.size() <= 24) return hex(b);
	return hex(b.substr(0, 10)) + "..(" + std::to_string(b.size()) + "B).." + hex(b.substr(b.size() - 4));
}
std::string spec_of(const Bytes &b)
{
	// literal, with long single-byte runs folded
	std::string o;
	size_t i = 0;
	Bytes litbuf;
	auto flush = [&]() { if (!litbuf.empty()) { if (!o.empty()) o += "+"; o += "x" + hex(litbuf); litbuf.clear(); } };
	while (i < b.size()) {
		size_t j = i;
		while (j < b.size() && b[j] == b[i]) j++;
		if (j - i >= 24) {
			flush();
			if (!o.empty()) o += "+";
			char t[40]; snprintf(t, sizeof t, "c%zux%02x", j - i, (unsigned char)b[i]);
			o += t;
		} else litbuf.append(b, i, j - i);
		i = j;
	}
	flush();
	if (o.empty()) o = "x";
	return o;
}

// --------------------------------------------------------------------- plans
void Plan::set(const std::string &k, const std::string &v)
{
	for (auto &kv : cfg) if (kv.first == k) { kv.second = v; return; }
	cfg.push_back({ k, v });
}
std::string Plan::gets(const std::string &k, const std::string &def) const
{
	for (auto &kv : cfg) if (kv.first == k) return kv.second;
	return def;
}
long long Plan::geti(const std::string &k, long long def) const
{
	for (auto &kv : cfg) if (kv.first == k) return atoll(kv.second.c_str());
	return def;
}
std::string Plan::str() const
{
	std::ostringstream o;
	o << "mtblsim-plan 1\n";
	o << "engine " << engine << "\nprop " << prop << "\ntier " << tier << "\nseed " << seed << "\nrun " << run << "\n";
	for (auto &kv : cfg) o << "cfg " << kv.first << " " << (kv.second.empty() ? "-" : kv.second) << "\n";
	for (auto &p : ops) {
		o << "op " << p.name;
		for (auto &a : p.a) o << " " << (a.empty() ? "-" : a);
		o << "\n";
	}
	o << "end\n";
	return o.str();
}
bool Plan::parse(const std::string &text, Plan &out, std::string *err)
{
	std::istringstream in(text);
	std::string line;
	out = Plan();
	bool seen_hdr = false;
	while (std::getline(in, line)) {
		if (line.empty() || line[0] == '#') continue;
		std::istringstream ls(line);
		std::string w;
		ls >> w;
		if (w == "mtblsim-plan") { seen_hdr = true; continue; }
		if (w == "engine") ls >> out.engine;
		else if (w == "prop") ls >> out.prop;
		else if (w == "tier") ls >> out.tier;
		else if (w == "seed") ls >> out.seed;
		else if (w == "run") ls >> out.run;
		else if (w == "cfg") { std::string k, v; ls >> k >> v; if (v == "-") v = ""; out.cfg.push_back({ k, v }); }
		else if (w == "op") {
			Op o; ls >> o.name;
			std::string a;
			while (ls >> a) o.a.push_back(a == "-" ? "" : a);
			out.ops.push_back(o);
		} else if (w == "end") break;
		else { if (err) *err = "unknown line: " + line; return false; }
	}
	if (!seen_hdr || out.engine.empty()) { if (err) *err = "not a plan file"; return false; }
	return true;
}

// ------------------------------------------------------------------- results
static std::string esc(const std::string &s)
{
	std::string o;
	for (unsigned char c : s) {
		if (c <= ' ' || c == '%' || c == '=' || c >= 127) { char t[8]; snprintf(t, sizeof t, "%%%02x", c); o += t; }
		else o.push_back((char)c);
	}
	return o;
}
static std::string kvs(const std::map<std::string, uint64_t> &m)
{
	std::string o;
	for (auto &kv : m) { if (!o.empty()) o += ","; o += kv.first + ":" + std::to_string(kv.second); }
	return o.empty() ? "-" : o;
}
std::string RunResult::line(uint64_t idx) const
{
	char t[256];
	snprintf(t, sizeof t, "RUN i=%llu st=%s fp=%016llx nt=%d sh=%016llx steps=%llu simns=%llu abs=%llu",
		 (unsigned long long)idx, viol ? "viol" : "ok", (unsigned long long)ev.h, nontrivial ? 1 : 0,
		 (unsigned long long)sched_hash, (unsigned long long)steps, (unsigned long long)sim_ns, (unsigned long long)abs_states);
	std::string o = t;
	o += " probes=" + kvs(probes) + " faults=" + kvs(faults) + " unjudged=" + kvs(unjudged);
	if (viol) o += " class=" + esc(vclass) + " site=" + esc(site) + " detail=" + esc(detail);
	return o;
}

// ------------------------------------------------------------------- scratch
static std::string g_scratch;
static void rm_rf(const std::string &dir, bool self)
{
	DIR *d = opendir(dir.c_str());
	if (d) {
		struct dirent *e;
		while ((e = readdir(d))) {
			if (!strcmp(e->d_name, ".") || !strcmp(e->d_name, "..")) continue;
			std::string p = dir + "/" + e->d_name;
			struct stat st;
			if (lstat(p.c_str(), &st) == 0 && S_ISDIR(st.st_mode)) rm_rf(p, true);
			else unlink(p.c_str());
		}
		closedir(d);
	}
	if (self) rmdir(dir.c_str());
}
const std::string &scratch_dir()
{
	if (g_scratch.empty()) {
		const char *base = getenv("MTBLSIM_SCRATCH");
		char t[256];
		snprintf(t, sizeof t, "%s/mtblsim.%ld", base ? base : "/dev/shm", (long)getpid());
		g_scratch = t;
		rm_rf(g_scratch, true);
		mkdir(g_scratch.c_str(), 0700);
		atexit(scratch_remove);
	}
	return g_scratch;
}
void scratch_clean() { if (!g_scratch.empty()) rm_rf(g_scratch, false); }
void scratch_remove()
{
	if (!g_scratch.empty()) {
		/* only the process that created it removes it (forked children share the string) */
		char t[64]; snprintf(t, sizeof t, ".%ld", (long)getpid());
		if (g_scratch.size() >= strlen(t) && g_scratch.compare(g_scratch.size() - strlen(t), strlen(t), t) == 0)
			rm_rf(g_scratch, true);
	}
}
Bytes read_file(const std::string &path, bool *ok)
{
	Bytes o;
	FILE *f = fopen(path.c_str(), "rb");
	if (!f) { if (ok) *ok = false; return o; }
	char buf[65536];
	size_t n;
	while ((n = fread(buf, 1, sizeof buf, f)) > 0) o.append(buf, n);
	fclose(f);
	if (ok) *ok = true;
	return o;
}
bool write_file(const std::string &path, const Bytes &data)
{
	FILE *f = fopen(path.c_str(), "wb");
	if (!f) return false;
	bool ok = data.empty() || fwrite(data.data(), 1, data.size(), f) == data.size();
	return fclose(f) == 0 && ok;
}
std::string tool_path(const char *name)
{
	const char *b = getenv("MTBLSIM_TOOLS");
	return std::string(b ? b : "/verif/build/tools") + "/" + name;
}
int run_cmd(const std::vector<std::string> &argv, Bytes *out, Bytes *errout, const std::vector<std::string> &env)
{
	int po[2], pe[2];
	if (pipe(po) || pipe(pe)) return -1000;
	fflush(stdout); fflush(stderr);
	// posix_spawn (vfork-style clone), not fork: copying the page tables of a sanitizer process costs tens of
	// milliseconds of kernel time per call and serialises the workers on the kernel's mm locks
	posix_spawn_file_actions_t fa;
	posix_spawn_file_actions_init(&fa);
	posix_spawn_file_actions_adddup2(&fa, po[1], 1);
	posix_spawn_file_actions_adddup2(&fa, pe[1], 2);
	posix_spawn_file_actions_addclose(&fa, po[0]); posix_spawn_file_actions_addclose(&fa, pe[0]);
	if (po[1] > 2) posix_spawn_file_actions_addclose(&fa, po[1]);
	if (pe[1] > 2) posix_spawn_file_actions_addclose(&fa, pe[1]);
	posix_spawn_file_actions_addopen(&fa, 0, "/dev/null", O_RDONLY, 0);
	std::vector<char *> av;
	for (auto &a : argv) av.push_back((char *)a.c_str());
	av.push_back(nullptr);
	std::vector<std::string> envs;
	for (char **e = environ; e && *e; e++) {
		std::string kv = *e;
		bool over = false;
		for (auto &x : env) { size_t eq = x.find('='); if (eq != std::string::npos && kv.compare(0, eq + 1, x, 0, eq + 1) == 0) over = true; }
		if (!over) envs.push_back(kv);
	}
	for (auto &x : env) envs.push_back(x);
	std::vector<char *> ev;
	for (auto &x : envs) ev.push_back((char *)x.c_str());
	ev.push_back(nullptr);
	pid_t pid = -1;
	int sr = posix_spawn(&pid, av[0], &fa, nullptr, av.data(), ev.data());
	posix_spawn_file_actions_destroy(&fa);
	if (sr != 0) { close(po[0]); close(po[1]); close(pe[0]); close(pe[1]); return 127; }
	close(po[1]); close(pe[1]);
	// read both pipes (poll-less: stdout first then stderr would deadlock on big stderr; use nonblocking loop)
	fcntl(po[0], F_SETFL, O_NONBLOCK); fcntl(pe[0], F_SETFL, O_NONBLOCK);
	bool oo = true, eo = true;
	char buf[65536];
	while (oo || eo) {
		struct pollfd pf[2] = { { oo ? po[0] : -1, POLLIN, 0 }, { eo ? pe[0] : -1, POLLIN, 0 } };
		if (poll(pf, 2, -1) < 0) { if (errno == EINTR) continue; break; }
		if (oo && (pf[0].revents & (POLLIN | POLLHUP | POLLERR))) { ssize_t n = read(po[0], buf, sizeof buf); if (n > 0) { if (out) out->append(buf, n); } else if (n == 0 || (errno != EAGAIN && errno != EINTR)) oo = false; }
		if (eo && (pf[1].revents & (POLLIN | POLLHUP | POLLERR))) { ssize_t n = read(pe[0], buf, sizeof buf); if (n > 0) { if (errout) errout->append(buf, n); } else if (n == 0 || (errno != EAGAIN && errno != EINTR)) eo = false; }
	}
	close(po[0]); close(pe[0]);
	int st = 0;
	while (waitpid(pid, &st, 0) < 0 && errno == EINTR) ;
	if (WIFEXITED(st)) return WEXITSTATUS(st);
	if (WIFSIGNALED(st)) return -WTERMSIG(st);
	return -999;
}

// ------------------------------------------------------------ key generators
KeyGen::KeyGen(Rng &rr) : r(rr)
{
	static const int alph[] = { 1, 2, 3, 4, 16, 26, 256, 256 };
	alphabet = alph[r.below(8)];
	family = (int)r.below(7);
	if (r.chance(1, 40)) family = 7;	// a few very long keys (>= 16 KiB: 3-byte length varints)
}
static char abyte(Rng &r, int alphabet)
{
	static const unsigned char special[] = { 0x00, 0x01, 0x7f, 0x80, 0xfe, 0xff };
	if (alphabet == 256) return r.chance(1, 4) ? (char)special[r.below(6)] : (char)r.below(256);
	if (alphabet <= 4) { static const unsigned char s4[] = { 0x00, 0xff, 0x80, 0x7f }; return (char)s4[r.below(alphabet)]; }
	return (char)('a' + r.below(alphabet));
}
Bytes KeyGen::key()
{
	Bytes k;
	switch (family) {
	case 0: { size_t n = r.below(9); for (size_t i = 0; i < n; i++) k.push_back(abyte(r, alphabet)); break; }
	case 1: { k.assign(20 + r.below(3), 'P'); size_t n = r.below(5); for (size_t i = 0; i < n; i++) k.push_back(abyte(r, alphabet)); break; }
	case 2: { char t[16]; snprintf(t, sizeof t, "%08x", (unsigned)r.below(4096)); k = t; break; }
	case 3: { size_t n = r.below(6); for (size_t i = 0; i < n; i++) k.push_back(abyte(r, 4)); break; }
	case 4: { size_t n = r.below(14); for (size_t i = 0; i < n; i++) k.push_back((char)('a' + (i % 2 ? r.below(2) : 0))); break; }
	case 5: { static const size_t sp[] = { 126, 127, 128, 129, 130, 255, 256, 300 }; k.assign(sp[r.below(8)] - 3 + r.below(4), (char)('k' + r.below(2))); size_t n = r.below(4); for (size_t i = 0; i < n; i++) k.push_back(abyte(r, alphabet)); break; }
	case 7: {
		if (r.chance(1, 6)) { static const size_t sp[] = { 16383, 16384, 16385, 32768, 20000 }; k.assign(sp[r.below(5)] - 2 + r.below(3), (char)('K' + r.below(2))); k.push_back(abyte(r, alphabet)); }
		else { size_t n = r.below(12); for (size_t i = 0; i < n; i++) k.push_back(abyte(r, alphabet)); }
		break;
	}
	default: { size_t n = r.below(24); for (size_t i = 0; i < n; i++) k.push_back(abyte(r, alphabet)); break; }
	}
	return k;
}
Bytes KeyGen::value(int big_pm)
{
	Bytes v;
	if (r.chance(big_pm, 1000)) {
		static const size_t sp[] = { 126, 127, 128, 129, 1100, 2500, 16383, 16384, 16385 };
		size_t n = sp[r.below(big_pm >= 100 ? 9 : 6)];
		// now and then a value larger than the internal block limits of the compression libraries (128 KiB zstd blocks, 64 KiB lz4/snappy windows)
		if (big_pm >= 100 && r.chance(1, 40)) { static const size_t huge[] = { 65535, 65536, 65537, 131071, 131072, 131073, 200000, 300000 }; n = huge[r.below(8)]; }
		if (r.chance(1, 2)) v.assign(n, (char)r.below(256));
		else { for (size_t i = 0; i < n; i++) v.push_back((char)r.below(256)); }
		return v;
	}
	size_t n = r.chance(1, 6) ? 0 : r.below(24);
	for (size_t i = 0; i < n; i++) v.push_back(r.chance(1, 2) ? 'v' : (char)r.below(256));
	return v;
}
Bytes KeyGen::neighbour(const Bytes &k)
{
	Bytes q = k;
	switch (r.below(8)) {
	case 0: return q;
	case 1: if (!q.empty()) q.pop_back(); return q;
	case 2: q.push_back('\0'); return q;
	case 3: q.push_back((char)0xff); return q;
	case 4: if (!q.empty() && (unsigned char)q.back() > 0) { q.back() = (char)((unsigned char)q.back() - 1); q.push_back((char)0xff); } return q;
	case 5: if (!q.empty() && (unsigned char)q.back() < 0xff) q.back() = (char)((unsigned char)q.back() + 1); return q;
	case 6: if (!q.empty()) q = q.substr(0, r.below(q.size() + 1)); return q;
	default: q.push_back(abyte(r, alphabet)); return q;
	}
}

// --------------------------------------------------------------- sched config
std::string sched_cfg_gen(Rng &r, uint64_t expected_steps)
{
	int strat = (int)r.below(SIM_STRAT_N);
	int spur = r.chance(1, 2) ? (int)r.below(60) : 0;
	int multi = r.chance(1, 3) ? (int)r.below(300) : 0;
	int starve = r.chance(1, 3) ? (int)(1 + r.below(30)) : 0;
	int delay = r.chance(1, 3) ? (int)(100 + r.below(600)) : 0;
	char t[256];
	snprintf(t, sizeof t, "%d:%llu:%d:%d:%d:%d:%d:%d:%d:%d:%llu:%llu", strat, (unsigned long long)(r.next() >> 16), (int)r.below(4),
		 (int)(1 + r.below(12)), spur, multi, starve, (int)(5 + r.below(60)), delay, (int)(5 + r.below(80)),
		 200000ULL, (unsigned long long)expected_steps);
	return t;
}
void sched_cfg_parse(const std::string &s, sim_sched_cfg *c)
{
	memset(c, 0, sizeof *c);
	unsigned long long seed = 1, budget = 200000, exp = 1000;
	sscanf(s.c_str(), "%d:%llu:%d:%d:%d:%d:%d:%d:%d:%d:%llu:%llu", &c->strategy, &seed, &c->pct_depth, &c->quantum,
	       &c->spurious_pm, &c->multiwake_pm, &c->starve_pm, &c->starve_len, &c->delay_pm, &c->delay_len, &budget, &exp);
	c->seed = seed; c->step_budget = budget; c->expected_steps = exp;
}


// ------------------------------------------------- start-routine names
namespace {
struct FuncSym { uint64_t value, size; std::string name; };
const std::vector<FuncSym> &exe_funcs()
{
	static std::vector<FuncSym> v;
	static bool done = false;
	if (done) return v;
	done = true;
	bool ok;
	Bytes f = read_file("/proc/self/exe", &ok);
	if (!ok || f.size() < sizeof(Elf64_Ehdr)) return v;
	const Elf64_Ehdr *eh = (const Elf64_Ehdr *)f.data();
	if (memcmp(eh->e_ident, ELFMAG, SELFMAG) != 0 || eh->e_shoff == 0 || eh->e_shoff + (uint64_t)eh->e_shnum * sizeof(Elf64_Shdr) > f.size()) return v;
	const Elf64_Shdr *sh = (const Elf64_Shdr *)(f.data() + eh->e_shoff);
	for (int i = 0; i < eh->e_shnum; i++) {
		if (sh[i].sh_type != SHT_SYMTAB || sh[i].sh_link >= eh->e_shnum) continue;
		const Elf64_Shdr &st = sh[sh[i].sh_link];
		if (sh[i].sh_offset + sh[i].sh_size > f.size() || st.sh_offset + st.sh_size > f.size()) continue;
		const Elf64_Sym *sy = (const Elf64_Sym *)(f.data() + sh[i].sh_offset);
		size_t n = sh[i].sh_size / sizeof(Elf64_Sym);
		for (size_t k = 0; k < n; k++) {
			if (ELF64_ST_TYPE(sy[k].st_info) != STT_FUNC || sy[k].st_name >= st.sh_size) continue;
			v.push_back({ sy[k].st_value, sy[k].st_size, std::string(f.data() + st.sh_offset + sy[k].st_name) });
		}
	}
	return v;
}
}
std::string symbol_of(const void *fn)
{
	Dl_info di;
	if (!dladdr(fn, &di) || !di.dli_fbase) return "";
	if (di.dli_sname) return di.dli_sname;
	uint64_t off = (uint64_t)((const char *)fn - (const char *)di.dli_fbase);
	for (auto &s : exe_funcs()) if (off >= s.value && off < s.value + (s.size ? s.size : 1)) return s.name;
	return "";
}
PoolThreads pool_threads(const sim_sched_stats &st)
{
	PoolThreads r;
	bool unknown = false, any = false;
	for (int i = 0; i < 8 && st.routine[i]; i++) {
		std::string n = symbol_of(st.routine[i]);
		if (n.find("thread_worker") != std::string::npos) { r.worker_max += st.routine_max_live[i]; r.workers_created += st.routine_created[i]; any = true; }
		else if (n.find("result_worker") != std::string::npos || n.find("task_main") != std::string::npos) any = true;
		else unknown = true;
	}
	r.named = any && !unknown;
	return r;
}
std::string worker_bound_broken(const sim_sched_stats &st, uint32_t limit, uint32_t ntasks, uint32_t nhandlers)
{
	PoolThreads pt = pool_threads(st);
	if (pt.named) {
		if (pt.worker_max > limit) return std::to_string(pt.worker_max) + " worker threads alive at once, configured maximum " + std::to_string(limit);
		return "";
	}
	uint64_t bound = 1ull + ntasks + nhandlers + limit;
	if (st.max_live > bound) return std::to_string(st.max_live) + " threads alive at once; 1 + " + std::to_string(ntasks) + " caller tasks + " + std::to_string(nhandlers) + " result handlers + " + std::to_string(limit) + " workers allow " + std::to_string(bound);
	return "";
}
