// Engine `table`: writer -> file -> (independent decoder) -> reader, with a
// stateful multi-iterator client checked against an ordered-map model.
// Serves C01 C02 C03 C08 C09 C10 C11.
#include "common.h"
#include "mergelib.h"
#include <algorithm>
#include <functional>
#include "tablelib.h"
#include "../sim/simsched.h"
#include "../sim/seams.h"
#include <fcntl.h>
#include <set>
#include <sys/stat.h>
#include <unistd.h>
extern "C" {
#include <mtbl.h>
}

extern int g_verbose;
void huge64_check(RunResult &res, bool builder, uint64_t seed);

// ---------------------------------------------------------------- generator
void gen_writer_cfg(Plan &p, Rng &r, bool allow_pool, bool allow_wfrag, bool allow_prefix)
{
	p.seti("comp", r.below(6));
	static const int levels[] = { -1000000, -2, -1, 0, 1, 3, 6, 9, 12, 19, 22, 1000 };
	p.set("level", r.chance(1, 2) ? "def" : std::to_string(levels[r.below(12)]));
	static const int bs[] = { 0, 1, 512, 1024, 1100, 1500, 2048, 4096, 8192, 65536, 131072, 262144 };
	p.seti("bsize", r.chance(3, 5) ? 1024 : bs[r.below(12)]);
	p.set("bsize_set", r.chance(9, 10) ? "1" : "0");	// 0: leave the option at its default (8192)
	p.seti("rint", r.chance(7, 10) ? 1 + r.below(6) : r.chance(1, 2) ? 16 : 7 + r.below(34));
	p.seti("pool", allow_pool && r.chance(1, 2) ? (long long)(r.chance(1, 10) ? 5 + r.below(4) : r.below(5)) : -1);	// 0..4 mostly, now and then up to 8
	p.seti("prefix", allow_prefix && r.chance(3, 10) ? 1 + (long long)r.below(700) : 0);
	p.seti("prefseed", r.below(1000));
	p.seti("prefmode", r.chance(1, 2) ? 0 : 1 + r.below(2));
	if (allow_wfrag && r.chance(1, 2)) {
		char t[64]; snprintf(t, sizeof t, "p:%d:%d:%d", (int)r.below(500), (int)r.below(300), (int)r.below(100000));
		p.set("wfrag", t);
	} else p.set("wfrag", "none");
	p.seti("initfd", r.below(2));
	p.seti("verify", r.below(2));
	p.seti("madv", r.below(2));
	p.seti("rinitfd", r.below(2));
}

size_t draw_n(Rng &r)
{
	uint64_t d = r.below(100);
	if (d < 10) return r.below(4);
	if (d < 60) return 4 + r.below(57);
	if (d < 90) return 60 + r.below(141);
	return 200 + r.below(201);
}

// A one-block table whose finished block (entries + restart array + count) is within a few bytes of 64 KiB x 2^k:
// the sizes at which growing buffers of the block builder are exactly full.  The layout is computed the way today's
// writer lays a block out (restart every `rint` entries, maximal sharing in between); if that ever changes the probe
// "final-block-at-capacity-boundary" shows that the target is being missed.
static size_t varint_len(uint64_t v) { size_t n = 1; while (v >= 128) { v >>= 7; n++; } return n; }
void gen_boundary_adds(Plan &p, Rng &r, size_t rint, uint64_t target)
{
	KeyGen kg(r);
	std::set<Bytes, bool (*)(const Bytes &, const Bytes &)> keys(bytes_less);
	size_t n = 24 + r.below(100);
	for (size_t tries = 0; keys.size() < n && tries < n * 4 + 8; tries++) keys.insert(kg.key());
	std::vector<Bytes> ks(keys.begin(), keys.end());
	n = ks.size();
	size_t each = (size_t)(target / n);
	uint64_t size = 0;
	Bytes prev;
	std::vector<size_t> vl(n, 0);
	for (size_t i = 0; i < n; i++) {
		size_t sh = (i % rint) == 0 ? 0 : mfmt::lcp(prev, ks[i]);
		size_t ns = ks[i].size() - sh;
		size += varint_len(sh) + varint_len(ns) + ns;
		prev = ks[i];
		if (i + 1 < n) { vl[i] = each / 2 + r.below(each / 2 + 1); size += varint_len(vl[i]) + vl[i]; }
	}
	size += 4 * ((n + rint - 1) / rint) + 4;
	// the last value takes what is left
	uint64_t left = target > size ? target - size : 1;
	size_t v = 0;
	for (size_t w = 1; w <= 4; w++) if (left > w && varint_len(left - w) == w) { v = (size_t)(left - w); break; }
	vl[n - 1] = v;
	for (size_t i = 0; i < n; i++) {
		char t[48]; snprintf(t, sizeof t, "p%zus%d", vl[i], (int)r.below(1000));
		p.op("add", { spec_of(ks[i]), vl[i] ? std::string(t) : std::string("x") });
	}
}

void gen_sorted_adds(Plan &p, Rng &r, size_t n, int big_pm)
{
	KeyGen kg(r);
	std::set<Bytes, bool (*)(const Bytes &, const Bytes &)> keys(bytes_less);
	for (size_t tries = 0; keys.size() < n && tries < n * 4 + 8; tries++) {
		Bytes k = kg.key();
		if (r.chance(1, 5) && !keys.empty()) k = kg.neighbour(*keys.begin());
		keys.insert(k);
	}
	if (r.chance(1, 6)) keys.insert(Bytes());	// the empty key
	for (auto &k : keys)
		p.op("add", { spec_of(k), spec_of(kg.value(big_pm)) });
}

static std::string sym_target(Rng &r, bool cursor_ok)
{
	char t[48];
	int m = (int)r.below(8);
	uint64_t d = cursor_ok ? r.below(100) : 40 + r.below(60);
	if (cursor_ok && d < 40) {
		static const char *c[] = { "@cur", "@cf", "@cl", "@pf", "@nf", "@rs" };
		uint64_t w = r.below(10);
		const char *base = w < 3 ? c[0] : c[1 + r.below(5)];
		if (!strcmp(base, "@rs")) snprintf(t, sizeof t, "@rs%d:%d", (int)r.below(12), r.chance(1, 2) ? 0 : m);
		else snprintf(t, sizeof t, "%s:%d", base, r.chance(1, 2) ? 0 : m);
		return t;
	}
	if (d < 46) return "@end";
	if (d < 65) { snprintf(t, sizeof t, "@s%d:%d", (int)r.below(400), r.chance(1, 3) ? 0 : m); return t; }
	if (d < 75) { snprintf(t, sizeof t, "@f%d:%d", (int)r.below(400), r.chance(1, 3) ? 0 : m); return t; }
	if (d < 85) { snprintf(t, sizeof t, "@l%d:%d", (int)r.below(400), r.chance(1, 3) ? 0 : m); return t; }
	if (d < 97) { snprintf(t, sizeof t, "@k%d:%d", (int)r.below(400), r.chance(1, 3) ? 0 : m); return t; }
	return "x";	// the empty string
}

static void gen_queries(Plan &p, Rng &r, int nq)
{
	for (int i = 0; i < nq; i++) {
		int kind = 1 + (int)r.below(3);
		std::string k0 = sym_target(r, false), k1 = kind == 3 ? sym_target(r, false) : "x";
		if (r.chance(1, 4)) {
			// two lookups open at once, advanced in turn (the second is often a whole-range scan so that both cross blocks)
			int kb = r.chance(1, 2) ? 3 : 1 + (int)r.below(3);
			std::string b0 = sym_target(r, false), b1 = kb == 3 ? (r.chance(1, 2) ? std::string("@end") : sym_target(r, false)) : "x";
			p.op("q2", { std::to_string(kind), k0, kind == 3 && r.chance(1, 2) ? std::string("@end") : k1, std::to_string(kb), b0, b1, std::to_string(r.next() | 1) });
		} else p.op("q", { std::to_string(kind), k0, k1 });
	}
}

static void gen_iter_history(Plan &p, Rng &r, int nops)
{
	bool open[4] = { false, false, false, false };
	for (int i = 0; i < nops; i++) {
		int s = (int)r.below(r.chance(1, 2) ? 2 : 4);
		uint64_t d = r.below(100);
		if (!open[s] || d < 8) {
			int kind = (int)r.below(4);
			if (r.chance(1, 2)) kind = 0;
			p.op("open", { std::to_string(s), std::to_string(kind), sym_target(r, false), kind == 3 ? sym_target(r, false) : "x" });
			open[s] = true;
		} else if (d < 55) {
			p.op("next", { std::to_string(s), std::to_string(r.chance(1, 2) ? 1 : 1 + r.below(12)) });
		} else if (d < 92) {
			p.op("seek", { std::to_string(s), sym_target(r, true) });
		} else {
			p.op("close", { std::to_string(s) });
			open[s] = false;
		}
	}
}

static Plan gen_table(const std::string &prop, const std::string &tier, uint64_t seed, uint64_t run)
{
	Plan p;
	p.engine = "table"; p.prop = prop; p.tier = tier; p.seed = seed; p.run = run;
	Rng r(seed, run, 0x7ab1e + (uint64_t)atoi(prop.c_str() + 1));
	bool thorough = tier == "thorough";
	p.set("producer", "real");

	if (prop == "C01" || prop == "C09" || prop == "C10") {
		gen_writer_cfg(p, r, true, true, true);
		if (r.chance(1, 2)) p.set("sched", sched_cfg_gen(r, 1500));
		else p.set("sched", sched_cfg_gen(r, 300));
		int big = r.chance(1, 3) ? 0 : r.chance(1, 2) ? 20 : 120;
		size_t n = draw_n(r);
		if (prop == "C10" && r.chance(1, 2)) {
			// unsorted adds: refused ones must not be counted
			KeyGen kg(r);
			Bytes last;
			for (size_t i = 0; i < n; i++) {
				Bytes k = r.chance(1, 3) ? kg.neighbour(last) : kg.key();
				p.op("add", { spec_of(k), spec_of(kg.value(big)) });
				last = k;
			}
		} else if (r.chance(1, 25)) {
			int m = (int)r.below(3);	// 64 KiB, 128 KiB, 256 KiB
			uint64_t cap = 65536ull << m;
			p.seti("bsize", m == 0 ? (r.chance(1, 2) ? 131072 : 262144) : m == 1 ? 262144 : 1048576);
			p.set("bsize_set", "1");
			p.seti("capacity", cap);
			gen_boundary_adds(p, r, (size_t)p.geti("rint", 16), cap + r.below(17) - 8);
		} else gen_sorted_adds(p, r, n, big);
		if (thorough && r.chance(1, 400)) {
			// one 2 MiB entry: 4-byte length varints
			p.op("add", { "xffff+c40xfe", "p2200000s" + std::to_string(r.below(1000)) });
		}
		p.seti("chk_roundtrip", prop == "C01");
		p.seti("chk_format", prop == "C09");
		p.seti("chk_stats", prop == "C10");
		if (prop == "C01" && r.chance(1, thorough ? 5 : 8)) {
			KeyGen kg(r);
			std::string kp = r.chance(1, 2) ? "-" : "@k" + std::to_string(r.below(400)) + ":6";
			std::string vp = r.chance(1, 2) ? "-" : r.chance(1, 2) ? "x76" : "x7676";
			p.op("dump", { kp, vp, std::to_string(r.chance(1, 2) ? 0 : r.below(12)), std::to_string(r.chance(1, 2) ? 0 : r.below(12)), std::to_string(r.chance(1, 2) ? 0 : r.chance(4, 5) ? 1 : 2) });
		}
		if (prop == "C10" && r.chance(1, thorough ? 5 : 10)) p.op("info");
	} else if (prop == "C02") {
		gen_writer_cfg(p, r, false, false, true);
		if (r.chance(1, 10)) { p.seti("pool", r.below(3)); p.set("sched", sched_cfg_gen(r, 800)); }
		gen_sorted_adds(p, r, draw_n(r), r.chance(1, 2) ? 0 : 30);
		gen_queries(p, r, 5 + (int)r.below(56));
	} else if (prop == "C03") {
		gen_writer_cfg(p, r, false, false, true);
		p.seti("bsize", 1024);
		p.set("bsize_set", "1");
		p.seti("rint", r.chance(4, 5) ? 1 + r.below(6) : 16);
		if (r.chance(1, thorough ? 25 : 150)) {
			// exhaustive (position, target) sweep over a small multi-block table
			gen_sorted_adds(p, r, 6 + r.below(30), 600);
			p.op("sweepseek", { std::to_string(r.chance(1, 2) ? 0 : r.below(4)), "40" });
		} else {
			gen_sorted_adds(p, r, 8 + r.below(r.chance(1, 4) ? 300 : 90), r.chance(1, 2) ? 60 : 200);
			gen_iter_history(p, r, 5 + (int)r.below(76));
		}
	} else if (prop == "C08") {
		gen_writer_cfg(p, r, true, false, true);
		p.seti("feed", r.chance(1, 5) ? 1 : 0);	// 1: through mtbl_source_write from a user-defined source
		p.set("sched", sched_cfg_gen(r, 600));
		p.seti("bsize", 1024);
		p.set("bsize_set", "1");
		KeyGen kg(r);
		size_t n = draw_n(r);
		Bytes last;
		int big = r.chance(1, 2) ? 150 : 400;	// blocks cut every few entries
		for (size_t i = 0; i < n; i++) {
			Bytes k;
			uint64_t d = r.below(10);
			if (d < 4) k = kg.key();
			else if (d < 8) k = kg.neighbour(last);
			else { k = last; k.push_back((char)r.below(256)); }
			p.op("add", { spec_of(k), spec_of(kg.value(big)) });
			if (r.chance(1, 3)) {	// immediate follow-up aimed at the key just offered
				Bytes k2 = kg.neighbour(k);
				p.op("add", { spec_of(k2), spec_of(kg.value(big)) });
				if (mfmt::cmp(k2, k) > 0) k = k2;
			}
			if (mfmt::cmp(k, last) > 0 || i == 0) last = k;
		}
		p.seti("chk_roundtrip", 1);
		p.seti("chk_stats", 1);
		if (r.chance(1, 4)) { p.seti("initexist", 1 + r.below(3)); p.seti("initexist_how", r.chance(1, 3) ? 0 : 1 + r.below(5)); }	// 1 empty file, 2 junk, 3 valid table; reached directly, through links, or a directory
		if (r.chance(1, 4)) p.seti("reinit", 1 + r.below(3));	// a second mtbl_writer_init on the path of the writer that is still open: 1 at once, 2 half-way, 3 before destroy
	} else if (prop == "C11") {
		gen_writer_cfg(p, r, false, false, true);
		p.set("producer", "ref");
		p.seti("ref_version", 1 + r.below(2));
		p.seti("ref_seed", r.below(1u << 30));
		p.seti("ref_maxblk", r.chance(1, 3) ? 1 : r.chance(1, 2) ? 1 + r.below(8) : 1 + r.below(300));
		p.seti("ref_restart_pm", r.chance(1, 4) ? 1000 : r.chance(1, 3) ? 0 : r.below(1000));
		p.seti("ref_share", r.below(3));
		p.seti("ref_sep", r.below(4));
		{	// the trailer's block-size field is informational: any value is legal in a foreign file
			static const char *bsf[] = { "0", "1", "64", "128", "512", "1023", "1024", "4096", "8192", "1048576", "4294967296", "18446744073709551615" };
			p.set("ref_bsfield", r.chance(1, 2) ? "-" : bsf[r.below(12)]);
		}
		gen_sorted_adds(p, r, draw_n(r), r.chance(1, 2) ? 0 : 60);
		p.seti("chk_roundtrip", 1);
		gen_queries(p, r, (int)r.below(20));
		gen_iter_history(p, r, (int)r.below(60));
		// the > 4 GiB restart-array branch: a hand-built sparse block now and then; once per thorough batch the real block_builder
		if (r.chance(1, thorough ? 300 : 500)) p.op("huge64", { "sparse", std::to_string(r.below(100000)) });
		if (thorough && run == 11) p.op("huge64", { "builder", std::to_string(r.below(100000)) });
	}
	return p;
}

// ----------------------------------------------------------------- executor
static bool parse_dump_line(const std::string &line, Bytes &k, Bytes &v)
{
	auto one = [](const std::string &t, Bytes &out) {
		if (t.size() < 9 || t[8] != ':') return false;
		size_t len = strtoul(t.substr(0, 8).c_str(), nullptr, 16);
		out.clear();
		size_t i = 9;
		while (i + 1 < t.size() + 0 && out.size() < len) {
			out.push_back((char)strtoul(t.substr(i, 2).c_str(), nullptr, 16));
			i += 2;
			if (i < t.size() && t[i] == '-') i++;
		}
		return out.size() == len && i == t.size();
	};
	size_t sp = line.find(' ');
	if (sp == std::string::npos) return false;
	return one(line.substr(0, sp), k) && one(line.substr(sp + 1), v);
}


std::vector<sim_wfault> g_tablelib_wlist;
sim_wstats g_tablelib_wstats;

bool tablelib_write(const Plan &p, RunResult &res, const std::string &path, TableModel &model,
		    const std::vector<Op> &adds, bool check_gate, Bytes *prefix_out)
{
	int comp = (int)p.geti("comp", 0);
	size_t prefix = (size_t)p.geti("prefix", 0);
	int pool = (int)p.geti("pool", -1);
	Bytes pre;
	if (prefix) { prng g; prng_seed(&g, (uint64_t)p.geti("prefseed", 0), 0x9e, 1); for (size_t i = 0; i < prefix; i++) pre.push_back((char)(prng_next(&g) >> 40)); }
	if (prefix_out) *prefix_out = pre;

	mtbl_writer_options *wo = mtbl_writer_options_init();
	{
		// setters in any order; one in three is first given another value and then the intended one
		std::vector<std::function<void(bool)>> set;
		set.push_back([&](bool ff) { if (ff) mtbl_writer_options_set_compression(wo, (mtbl_compression_type)((comp + 1 + optvar_next() % 5) % 6)); mtbl_writer_options_set_compression(wo, (mtbl_compression_type)comp); });
		if (p.gets("level", "def") != "def") set.push_back([&](bool ff) { if (ff) mtbl_writer_options_set_compression_level(wo, (int)(optvar_next() % 40) - 10); mtbl_writer_options_set_compression_level(wo, (int)p.geti("level")); });
		if (p.geti("bsize_set", 1)) set.push_back([&](bool ff) { if (ff) mtbl_writer_options_set_block_size(wo, (size_t)(optvar_next() % 100000)); mtbl_writer_options_set_block_size(wo, (size_t)p.geti("bsize", 8192)); });
		set.push_back([&](bool ff) { if (ff) mtbl_writer_options_set_block_restart_interval(wo, (size_t)(1 + optvar_next() % 64)); mtbl_writer_options_set_block_restart_interval(wo, (size_t)p.geti("rint", 16)); });
		for (size_t i = set.size(); i > 1; i--) std::swap(set[i - 1], set[optvar_next() % i]);
		for (auto &f : set) f(optvar_next() % 3 == 0);
	}

	mtbl_threadpool *tp = nullptr;
	bool sched = pool >= 0;
	if (sched) {
		sim_sched_cfg sc; sched_cfg_parse(p.gets("sched", "0:1:0:1:0:0:0:1:0:1:200000:1000"), &sc);
		sim_sched_begin(&sc);
		tp = mtbl_threadpool_init((size_t)pool);
		mtbl_writer_options_set_threadpool(wo, tp);
	}
	std::string wf = p.gets("wfrag", "none");
	if (wf == "list") {
		sim_wfault_arm_list(g_tablelib_wlist.data(), g_tablelib_wlist.size());
	} else if (wf != "none") {
		int sh = 0, ei = 0; unsigned long long sd = 0;
		sscanf(wf.c_str(), "p:%d:%d:%llu", &sh, &ei, &sd);
		sim_wfault_arm_profile(sd, sh, ei);
	}

	mtbl_writer *w = nullptr;
	unlink(path.c_str());
	if (prefix || p.geti("initfd", 0)) {
		int fd = open(path.c_str(), O_WRONLY | O_CREAT | O_TRUNC, 0644);
		if (fd < 0) { res.fail("INFRA", "open", "cannot create scratch file"); return false; }
		// how the bytes before the table got there: 0 written (offset == size); 1 reserved by lseek in an empty file
		// (offset > size, the hole reads as zeros); 2 the file is longer than the offset (descriptor positioned before EOF)
		int prefmode = (int)p.geti("prefmode", 0);
		if (prefix && prefmode == 1) {
			if (lseek(fd, (off_t)prefix, SEEK_SET) != (off_t)prefix) { res.fail("INFRA", "lseek", "prefix"); return false; }
			pre.assign(prefix, '\0');
			if (prefix_out) *prefix_out = pre;
			res.probes["prefix-reserved-by-lseek"]++;
		} else if (prefix) {
			if (write(fd, pre.data(), pre.size()) != (ssize_t)pre.size()) { res.fail("INFRA", "write", "prefix"); return false; }
			if (prefmode == 2) {
				Bytes tail(1 + (size_t)p.geti("prefseed", 0) % 300, '\xEE');
				if (write(fd, tail.data(), tail.size()) != (ssize_t)tail.size() || lseek(fd, (off_t)prefix, SEEK_SET) != (off_t)prefix) { res.fail("INFRA", "write", "tail"); return false; }
				res.probes["prefix-in-longer-file"]++;
			}
		}
		w = mtbl_writer_init_fd(fd, wo);
		close(fd);
	} else w = mtbl_writer_init(path.c_str(), wo);
	mtbl_writer_options_destroy(&wo);
	if (!w) { res.fail("MODEL", "WRITER-init", "mtbl_writer_init returned NULL on a fresh path"); return false; }

	Bytes last; bool any = false;
	size_t opi = 0, refused = 0;
	// C08: the path a writer is working on exists from mtbl_writer_init on, so a second mtbl_writer_init on it
	// (the same name, or - when the name is used as given - a hard-to-spot other spelling) must be refused
	int reinit = check_gate && !(prefix || p.geti("initfd", 0)) ? (int)p.geti("reinit", 0) : 0;
	auto try_reinit = [&]() {
		std::string name = path;
		size_t sl = path.rfind('/');
		if (sl != std::string::npos && (p.geti("prefseed", 0) & 1)) name = path.substr(0, sl) + "/./" + path.substr(sl + 1);
		mtbl_writer *w2 = mtbl_writer_init(name.c_str(), nullptr);
		res.probes["init-on-the-path-of-an-open-writer"]++;
		if (w2 != nullptr) {
			res.fail("MODEL", "INIT-WHILE-OPEN", "a second mtbl_writer_init on the path of a writer that is still open succeeded (after " + std::to_string(opi) + " adds)");
			mtbl_writer_destroy(&w2);
		}
	};
	if (reinit == 1) try_reinit();
	if (check_gate && p.geti("feed", 0) == 1) {
		// the writer is fed by mtbl_source_write() from a user-defined source that yields the plan's adds in plan order
		// (sorted or not): the gate must act on every entry exactly as for direct adds, i.e. the copy stops at the
		// first key that is not greater than its predecessor, reports failure, and the file holds what came before
		USource us;
		for (auto &o : adds) us.ents.push_back({ o.argb(0), o.argb(1) });
		mtbl_source *src = usource_make(&us);
		mtbl_res r = mtbl_source_write(src, w);
		size_t f = 0;
		for (; f < us.ents.size(); f++) {
			if (any && mfmt::cmp(us.ents[f].first, last) <= 0) break;
			model[us.ents[f].first] = us.ents[f].second; last = us.ents[f].first; any = true;
		}
		bool expect_ok = f == us.ents.size();
		res.ev.u(r == mtbl_res_success);
		res.probes["writer-fed-by-mtbl_source_write"]++;
		if ((r == mtbl_res_success) != expect_ok)
			res.fail("MODEL", expect_ok ? "GATE-refused" : "GATE-accepted", std::string("mtbl_source_write ") + (expect_ok ? "failed on a strictly increasing source" : "reported success although entry #" + std::to_string(f) + " (key " + short_repr(us.ents[f].first) + ") is not greater than its predecessor " + short_repr(last)));
		if (!expect_ok) refused = 1;
		mtbl_source_destroy(&src);
		if (us.live_iters != 0) res.fail("MODEL", "ITER-LEAK", "mtbl_source_write left an iterator of the source alive");
	} else
	for (auto &o : adds) {
		Bytes k = o.argb(0), v = o.argb(1);
		mtbl_res r = mtbl_writer_add(w, (const uint8_t *)k.data(), k.size(), (const uint8_t *)v.data(), v.size());
		bool expect = !any || mfmt::cmp(k, last) > 0;
		res.ev.u(r == mtbl_res_success);
		if (reinit == 2 && opi == adds.size() / 2) try_reinit();
		if (check_gate && (r == mtbl_res_success) != expect)
			res.fail("MODEL", expect ? "GATE-refused" : "GATE-accepted",
				 "add #" + std::to_string(opi) + " key " + short_repr(k) + (expect ? " refused although greater than" : " accepted although not greater than") + " the last accepted key " + short_repr(last));
		if (r == mtbl_res_success) { model[k] = v; last = k; any = true; }
		else refused++;
		opi++;
	}
	if (refused) res.probes["add-refused"] += refused;
	if (reinit == 3 || (reinit == 2 && p.geti("feed", 0) == 1)) try_reinit();
	mtbl_writer_destroy(&w);
	if (sched) {
		mtbl_threadpool_destroy(&tp);
		sim_sched_stats st; sim_sched_end(&st);
		res.sched_hash = st.choices_hash; res.steps += st.steps; res.abs_states += st.abs_states;
		res.ev.u(st.choices_hash);
		if (st.unjoined) res.fail("SCHED", "THREAD-LEAK", std::to_string(st.unjoined) + " pool threads still alive after threadpool_destroy");
		PoolThreads pt = pool_threads(st);
		if (!pt.named) res.probes["start-routine-names-unknown"]++;
		if (pool > 0) { std::string wb = worker_bound_broken(st, (uint32_t)pool, 0, 1); if (!wb.empty()) res.fail("SCHED", "WORKER-COUNT", wb); }
		if (st.spurious) res.faults["spurious-wakeup"] += st.spurious;
		if (st.multiwake) res.faults["signal-wakes-two"] += st.multiwake;
		if (st.starves) res.faults["thread-starved"] += st.starves;
		if (st.delays) res.faults["thread-start-delayed"] += st.delays;
		if (st.lock_contended) res.probes["mutex-contended"] += st.lock_contended;
		if (pt.named && pt.workers_created > 0 && pt.worker_max == (uint32_t)pool) res.probes["pool-saturated"]++;
		if (st.join_waited) res.probes["join-had-to-wait"] += st.join_waited;
	}
	if (wf != "none") {
		sim_wstats ws; sim_wstats_get(&ws); sim_wfault_disarm();
		g_tablelib_wstats = ws;
		if (ws.shorts) res.faults["short-write"] += ws.shorts;
		if (ws.eintrs) res.faults["write-eintr"] += ws.eintrs;
		if (ws.eintr_runs2) res.probes["eintr-twice-in-a-row"] += ws.eintr_runs2;
	}
	return true;
}

static RunResult exec_table(const Plan &p)
{
	RunResult res;
	struct { TableModel model = new_model(); mfmt::DFile df; bool have_df = false; std::string path; mtbl_reader *reader = nullptr; const mtbl_source *src = nullptr; } c;
	c.path = scratch_dir() + "/t.mtbl";
	std::string prop = p.prop;
	bool ref = p.gets("producer", "real") == "ref";
	int comp = (int)p.geti("comp", 0);
	uint64_t bsize = p.geti("bsize_set", 1) ? (uint64_t)p.geti("bsize", 8192) : 8192;
	if (bsize < 1024) bsize = 1024;
	uint64_t rint = (uint64_t)p.geti("rint", 16);
	Bytes pre;

	std::vector<Op> adds;
	for (auto &o : p.ops) if (o.name == "add") adds.push_back(o);

	// ---- C08: mtbl_writer_init on an existing path
	if (int ie = (int)p.geti("initexist", 0)) {
		std::string ep = scratch_dir() + "/exist.mtbl";
		Bytes content;
		if (ie == 2) content = "not a table, but precious";
		if (ie == 3) { mfmt::EncOpts eo; mfmt::Entries e{ { "a", "1" }, { "b", "2" } }; content = mfmt::encode(e, eo); }
		write_file(ep, content);
		// the name handed to mtbl_writer_init: the file itself, a symbolic link to it (relative or absolute), a link to a
		// link, a dangling link, or a directory - every one of them exists, none may be opened, the file must not change
		int how = (int)p.geti("initexist_how", 0) % 6;
		std::string name = ep, lnk = scratch_dir() + "/exist.lnk", lnk2 = scratch_dir() + "/exist.lnk2";
		unlink(lnk.c_str()); unlink(lnk2.c_str());
		const char *hown[] = { "an existing file", "a relative symbolic link to an existing file", "an absolute symbolic link to an existing file", "a link to a link to an existing file", "a dangling symbolic link", "a directory" };
		if (how == 1) { if (symlink("exist.mtbl", lnk.c_str()) == 0) name = lnk; }
		else if (how == 2) { if (symlink(ep.c_str(), lnk.c_str()) == 0) name = lnk; }
		else if (how == 3) { if (symlink("exist.mtbl", lnk.c_str()) == 0 && symlink("exist.lnk", lnk2.c_str()) == 0) name = lnk2; }
		else if (how == 4) { if (symlink("no-such-file.mtbl", lnk.c_str()) == 0) name = lnk; }
		else if (how == 5) { name = scratch_dir() + "/exist.dir"; mkdir(name.c_str(), 0700); }
		mtbl_writer *w = mtbl_writer_init(name.c_str(), nullptr);
		if (w != nullptr) {
			res.fail("MODEL", "INIT-EXISTING", std::string("mtbl_writer_init opened an existing path (") + hown[how] + ")");
			mtbl_writer_destroy(&w);
		}
		if (read_file(ep) != content) res.fail("MODEL", "INIT-EXISTING-modified", std::string("existing file changed by mtbl_writer_init on ") + hown[how]);
		if (how == 4) { struct stat sb; if (stat((scratch_dir() + "/no-such-file.mtbl").c_str(), &sb) == 0) res.fail("MODEL", "INIT-EXISTING-created-through-link", "mtbl_writer_init created a file through a dangling symbolic link"); unlink((scratch_dir() + "/no-such-file.mtbl").c_str()); }
		unlink(lnk.c_str()); unlink(lnk2.c_str());
		if (how == 5) rmdir(name.c_str());
		res.probes["init-on-existing-path"]++;
		if (how) res.probes["init-on-existing-link-or-directory"]++;
	}

	// ---- produce the file
	if (!ref) {
		if (!tablelib_write(p, res, c.path, c.model, adds, prop == "C08", &pre)) return res;
	} else {
		Bytes last; bool any = false;
		mfmt::Entries ents;
		for (auto &o : adds) {
			Bytes k = o.argb(0), v = o.argb(1);
			if (any && mfmt::cmp(k, last) <= 0) continue;
			c.model[k] = v; ents.push_back({ k, v }); last = k; any = true;
		}
		size_t prefix = (size_t)p.geti("prefix", 0);
		if (prefix) { prng g; prng_seed(&g, (uint64_t)p.geti("prefseed", 0), 0x9e, 1); for (size_t i = 0; i < prefix; i++) pre.push_back((char)(prng_next(&g) >> 40)); }
		mfmt::EncOpts eo;
		eo.version = (int)p.geti("ref_version", 2); eo.algo = comp; eo.seed = (uint64_t)p.geti("ref_seed", 1);
		eo.foreign_prefix = pre; eo.max_block_entries = (int)p.geti("ref_maxblk", 8);
		eo.restart_pm = (int)p.geti("ref_restart_pm", 300); eo.share_mode = (int)p.geti("ref_share", 0);
		eo.sep_mode = (int)p.geti("ref_sep", 0); eo.block_size_field = bsize;
		if (!p.gets("ref_bsfield", "").empty() && p.gets("ref_bsfield", "-") != "-") { eo.block_size_field = strtoull(p.gets("ref_bsfield").c_str(), nullptr, 10); res.probes["ref-unusual-block-size-field"]++; }
		write_file(c.path, mfmt::encode(ents, eo));
		res.probes[eo.version == 1 ? "ref-v1" : "ref-v2"]++;
	}

	// ---- C08: "a refused add changes nothing": the file must be byte-identical to the one a second writer
	// produces from the accepted adds alone (same configuration, no pool)
	if (prop == "C08" && !ref && !res.viol) {
		std::vector<Op> accepted;
		for (auto &kv : c.model) accepted.push_back(Op{ "add", { spec_of(kv.first), spec_of(kv.second) } });
		if (accepted.size() != adds.size()) {
			Plan q = p;
			q.seti("pool", -1); q.set("wfrag", "none");
			TableModel m2 = new_model(); RunResult r2;
			std::string p2 = scratch_dir() + "/t.accepted-only.mtbl";
			if (tablelib_write(q, r2, p2, m2, accepted, false, nullptr)) {
				Bytes a = read_file(c.path), b = read_file(p2);
				if (a != b) {
					size_t i = 0; while (i < a.size() && i < b.size() && a[i] == b[i]) i++;
					res.fail("MODEL", "REFUSAL-changed-file", "the file written with " + std::to_string(adds.size() - accepted.size()) + " refused adds differs from the file written from the accepted adds alone (" + std::to_string(a.size()) + " vs " + std::to_string(b.size()) + " bytes, first difference at offset " + std::to_string(i) + ")");
				}
				res.probes["compared-with-accepted-only-file"]++;
			}
		}
	}

	// ---- independent decode of the bytes on disk
	Bytes file = read_file(c.path);
	{
		mfmt::DecodeOpts dopt;
		dopt.start = pre.size(); dopt.block_size = bsize; dopt.restart_interval = rint; dopt.writer_rules = !ref;
		mfmt::decode(file, dopt, c.df);
		c.have_df = !c.df.fatal;
		res.ev.u(file.size());
		res.ev.u(c.df.data.size());
	}
	size_t nblocks = c.have_df ? c.df.data.size() : 0;
	if (p.geti("chk_format", 0) && !ref) {
		if (file.compare(0, pre.size(), pre) != 0) res.fail("FORMAT", "R-PREFIX", "bytes before the table's initial offset were modified");
		if (!c.df.errors.empty()) {
			std::string rule = c.df.errors[0].substr(0, c.df.errors[0].find(' '));
			res.fail("FORMAT", rule, c.df.errors[0]);
		} else {
			// content as seen by the independent decoder
			auto it = c.model.begin();
			bool ok = true;
			for (auto &b : c.df.data) for (auto &e : b.entries) { if (it == c.model.end() || it->first != e.key || it->second != e.val) ok = false; else ++it; }
			if (!ok || it != c.model.end()) res.fail("FORMAT", "R-CONTENT", "entries decoded independently differ from the accepted adds");
			if (c.df.version != 2) res.fail("FORMAT", "R-VERSION", "writer did not produce format v2");
		}
	}
	if (p.geti("chk_stats", 0) && !ref) {
		if (!c.have_df) res.fail("STATS", "S-undecodable", c.df.errors.empty() ? "?" : c.df.errors[0]);
		else {
			uint64_t bd = 0, bk = 0, bv = 0;
			for (auto &b : c.df.data) bd += b.framed;
			for (auto &kv : c.model) { bk += kv.first.size(); bv += kv.second.size(); }
			struct { const char *n; uint64_t got, want; } f[] = {
				{ "count_entries", c.df.n_entries, c.model.size() }, { "count_data_blocks", c.df.n_blocks, c.df.data.size() },
				{ "bytes_data_blocks", c.df.bytes_data, bd }, { "bytes_index_block", c.df.bytes_index, c.df.index.framed },
				{ "bytes_keys", c.df.bytes_keys, bk }, { "bytes_values", c.df.bytes_vals, bv },
				{ "data_block_size", c.df.block_size, bsize }, { "compression_algorithm", c.df.algo, (uint64_t)comp },
				{ "index_block_offset", c.df.index_off, pre.size() + bd }, { "file_version", (uint64_t)c.df.version, 2 },
			};
			for (auto &x : f) if (x.got != x.want)
				res.fail("STATS", std::string("S-trailer-") + x.n, std::string(x.n) + " in trailer is " + std::to_string(x.got) + ", truth is " + std::to_string(x.want));
		}
	}

	// ---- open with the library
	mtbl_reader_options *ro = make_reader_options(p.geti("verify", 0) != 0, p.geti("madv", 0) != 0);
	if (p.geti("rinitfd", 0)) {
		int fd = open(c.path.c_str(), O_RDONLY);
		c.reader = mtbl_reader_init_fd(fd, ro);
		close(fd);
	} else c.reader = mtbl_reader_init(c.path.c_str(), ro);
	mtbl_reader_options_destroy(&ro);
	if (!c.reader) { res.fail("MODEL", "READER-open", "mtbl_reader_init returned NULL for a finished table"); return res; }
	c.src = mtbl_reader_source(c.reader);

	if (p.geti("chk_stats", 0) && c.have_df) {
		const mtbl_metadata *m = mtbl_reader_metadata(c.reader);
		uint64_t bd = 0, bk = 0, bv = 0;
		for (auto &b : c.df.data) bd += b.framed;
		for (auto &kv : c.model) { bk += kv.first.size(); bv += kv.second.size(); }
		struct { const char *n; uint64_t got, want; } f[] = {
			{ "count_entries", mtbl_metadata_count_entries(m), c.model.size() }, { "count_data_blocks", mtbl_metadata_count_data_blocks(m), c.df.data.size() },
			{ "bytes_data_blocks", mtbl_metadata_bytes_data_blocks(m), bd }, { "bytes_index_block", mtbl_metadata_bytes_index_block(m), c.df.index.framed },
			{ "bytes_keys", mtbl_metadata_bytes_keys(m), bk }, { "bytes_values", mtbl_metadata_bytes_values(m), bv },
			{ "data_block_size", mtbl_metadata_data_block_size(m), bsize }, { "compression_algorithm", mtbl_metadata_compression_algorithm(m), (uint64_t)comp },
			{ "index_block_offset", mtbl_metadata_index_block_offset(m), pre.size() + bd }, { "file_version", (uint64_t)mtbl_metadata_file_version(m), (uint64_t)MTBL_FORMAT_V2 },
		};
		for (auto &x : f) if (x.got != x.want)
			res.fail("STATS", std::string("S-accessor-") + x.n, std::string("mtbl_metadata_") + x.n + "() returns " + std::to_string(x.got) + ", truth is " + std::to_string(x.want));
	}

	if (p.geti("chk_roundtrip", 0)) {
		mtbl_iter *it = mtbl_source_iter(c.src);
		auto pos = c.model.begin();
		size_t n = 0;
		for (;;) {
			const uint8_t *k, *v; size_t kl, vl;
			mtbl_res r = mtbl_iter_next(it, &k, &kl, &v, &vl);
			if (pos == c.model.end()) {
				if (r == mtbl_res_success) res.fail("MODEL", "ROUNDTRIP-extra", "iteration returned an entry beyond the " + std::to_string(n) + " accepted ones: key " + short_repr(Bytes((const char *)k, kl)));
				break;
			}
			if (r != mtbl_res_success) { res.fail("MODEL", "ROUNDTRIP-missing", "iteration ended after " + std::to_string(n) + " of " + std::to_string(c.model.size()) + " entries"); break; }
			if (Bytes((const char *)k, kl) != pos->first) { res.fail("MODEL", "ROUNDTRIP-key", "entry " + std::to_string(n) + ": key " + short_repr(Bytes((const char *)k, kl)) + ", expected " + short_repr(pos->first)); break; }
			if (Bytes((const char *)v, vl) != pos->second) { res.fail("MODEL", "ROUNDTRIP-value", "entry " + std::to_string(n) + ": value differs for key " + short_repr(pos->first)); break; }
			++pos; ++n;
		}
		res.ev.u(n);
		mtbl_iter_destroy(&it);
	}

	// ---- client history
	Client cl(res, c.model, c.src, c.have_df ? &c.df : nullptr);
	size_t opi = 0;
	for (auto &o : p.ops) {
		opi++;
		if (o.name == "add") continue;
		if (res.viol) break;
		if (cl.op(o, opi)) {
		} else if (o.name == "huge64") {
			huge64_check(res, o.arg(0) == "builder", (uint64_t)o.argi(1));
		} else if (o.name == "dump") {
			int dmode = (int)(o.argi(4) % 3);	// 0 -x (hex), 1 default text rendering, 2 -s (silent: filters run, nothing printed)
			std::vector<std::string> av{ tool_path("mtbl_dump") };
			if (dmode == 0) av.push_back("-x");
			if (dmode == 2) av.push_back("-s");
			Bytes kp, vp; bool hk = false, hv = false;
			if (!o.arg(0).empty() && o.arg(0) != "-") { kp = cl.resolve(o.arg(0), nullptr); if (!kp.empty()) { hk = true; av.push_back("-k"); av.push_back(hex(kp)); } }
			if (!o.arg(1).empty() && o.arg(1) != "-") { vp = cl.resolve(o.arg(1), nullptr); if (!vp.empty()) { hv = true; av.push_back("-v"); av.push_back(hex(vp)); } }
			size_t K = (size_t)o.argi(2), V = (size_t)o.argi(3);
			if (K) { av.push_back("-K"); av.push_back(std::to_string(K)); }
			if (V) { av.push_back("-V"); av.push_back(std::to_string(V)); }
			av.push_back(c.path);
			Bytes out, errs;
			int st = run_cmd(av, &out, &errs);
			res.probes["mtbl_dump-run"]++;
			if (st != 0) { res.fail("TOOL", "DUMP-status", "mtbl_dump exited with " + std::to_string(st) + ": " + errs.substr(0, 200)); continue; }
			if (dmode != 0) {
				// text mode: the documented rendering ("..." with \" for a quote and \xNN for bytes outside 0x20..0x7e) of exactly
				// the matching entries, in order; the rendering is not injective, so the expected text is produced from the model
				Bytes want;
				size_t nwant = 0;
				auto render = [&](const Bytes &b) {
					want.push_back('"');
					for (unsigned char ch : b) {
						if (ch >= 0x20 && ch <= 0x7e) { if (ch == '"') want += "\\\""; else want.push_back((char)ch); }
						else { char t[8]; snprintf(t, sizeof t, "\\x%02x", ch); want += t; }
					}
					want.push_back('"');
				};
				for (auto &kv : c.model) {
					if (!((!hk || has_prefix(kv.first, kp)) && (!hv || has_prefix(kv.second, vp)) && kv.first.size() >= K && kv.second.size() >= V)) continue;
					if (dmode == 1) { render(kv.first); want.push_back(' '); render(kv.second); want.push_back('\n'); }
					nwant++;
				}
				res.probes[dmode == 1 ? "mtbl_dump-text-mode" : "mtbl_dump-silent-mode"]++;
				if (out != want) {
					size_t d = 0; while (d < out.size() && d < want.size() && out[d] == want[d]) d++;
					size_t line = (size_t)std::count(want.begin(), want.begin() + (long)d, '\n');
					res.fail("TOOL", dmode == 1 ? "DUMP-text" : "DUMP-silent-prints", "mtbl_dump " + std::string(dmode == 1 ? "(text mode)" : "-s") + " output differs from the rendering of the " + std::to_string(nwant) + " matching entries at byte " + std::to_string(d) + " (line " + std::to_string(line) + "): got " + short_repr(out.substr(d, 24)) + ", expected " + short_repr(want.substr(d, 24)));
				}
				res.ev.u(nwant);
				continue;
			}
			auto pos = c.model.begin();
			size_t ln = 0, i = 0;
			bool bad = false;
			while (i < out.size() && !bad) {
				size_t j = out.find('\n', i);
				if (j == Bytes::npos) j = out.size();
				Bytes k, v;
				if (!parse_dump_line(out.substr(i, j - i), k, v)) { res.fail("TOOL", "DUMP-format", "unparsable mtbl_dump -x line " + std::to_string(ln)); bad = true; break; }
				while (pos != c.model.end() && !((!hk || has_prefix(pos->first, kp)) && (!hv || has_prefix(pos->second, vp)) && pos->first.size() >= K && pos->second.size() >= V)) ++pos;
				if (pos == c.model.end() || pos->first != k || pos->second != v) { res.fail("TOOL", "DUMP-content", "mtbl_dump line " + std::to_string(ln) + " key " + short_repr(k) + " is not the next matching entry of the model"); bad = true; break; }
				++pos; ln++; i = j + 1;
			}
			if (!bad) {
				while (pos != c.model.end() && !((!hk || has_prefix(pos->first, kp)) && (!hv || has_prefix(pos->second, vp)) && pos->first.size() >= K && pos->second.size() >= V)) ++pos;
				if (pos != c.model.end()) res.fail("TOOL", "DUMP-missing", "mtbl_dump printed " + std::to_string(ln) + " lines and omitted matching key " + short_repr(pos->first));
			}
			res.ev.u(ln);
		} else if (o.name == "info") {
			Bytes out, errs;
			int st = run_cmd({ tool_path("mtbl_info"), c.path }, &out, &errs, { "LC_ALL=C" });
			res.probes["mtbl_info-run"]++;
			if (st != 0) { res.fail("TOOL", "INFO-status", "mtbl_info exited with " + std::to_string(st)); continue; }
			if (!c.have_df) continue;
			uint64_t bd = 0, bk = 0, bv = 0;
			for (auto &b : c.df.data) bd += b.framed;
			for (auto &kv : c.model) { bk += kv.first.size(); bv += kv.second.size(); }
			static const char *algos[] = { "none", "snappy", "zlib", "lz4", "lz4hc", "zstd" };
			struct { const char *label; std::string want; } f[] = {
				{ "file size:", std::to_string(file.size()) }, { "index block offset:", std::to_string(pre.size() + bd) },
				{ "index bytes:", std::to_string(c.df.index.framed) }, { "data block bytes", std::to_string(bd) },
				{ "data block size:", std::to_string(bsize) }, { "data block count", std::to_string(c.df.data.size()) },
				{ "entry count:", std::to_string(c.model.size()) }, { "key bytes:", std::to_string(bk) },
				{ "value bytes:", std::to_string(bv) }, { "compression algorithm:", algos[comp] },
			};
			for (auto &x : f) {
				size_t at = out.find(std::string("\n") + x.label);
				// a line the tool does not print (or words differently) says nothing false: not judged, but counted
				if (at == Bytes::npos) {
					std::string lab = x.label;
					for (auto &ch : lab) if (!isalnum((unsigned char)ch)) ch = '-';
					res.unjudged["mtbl_info-has-no-line-" + lab]++;
					continue;
				}
				res.probes["mtbl_info-line-checked"]++;
				size_t vs = at + 1 + strlen(x.label);
				while (vs < out.size() && out[vs] == ' ') vs++;
				size_t ve = vs;
				while (ve < out.size() && out[ve] != ' ' && out[ve] != '\n') ve++;
				std::string got = out.substr(vs, ve - vs);
				if (got != x.want) { res.fail("TOOL", std::string("INFO-") + x.label, std::string("mtbl_info prints '") + x.label + " " + got + "', truth is " + x.want); break; }
			}
		}
	}
	cl.close_all();
	mtbl_reader_destroy(&c.reader);

	// ---- non-trivial rule per property
	if (nblocks >= 2) res.probes["two-or-more-blocks"]++;
	if (p.geti("capacity", 0) > 0 && c.have_df && !c.df.data.empty()) {
		uint64_t cap = (uint64_t)p.geti("capacity", 0), raw = c.df.data.back().raw_size;
		if (raw + 8 >= cap && raw <= cap + 8) {
			res.probes["final-block-at-capacity-boundary"]++;
			if (raw > cap && raw <= cap + 4) res.probes["final-block-1-to-4-bytes-over-a-buffer-capacity"]++;
		}
	}
	if (prop == "C01" || prop == "C09" || prop == "C10")
		res.nontrivial = nblocks >= 2 && (p.geti("pool", -1) >= 0 || p.gets("wfrag", "none") != "none" || p.geti("prefix", 0) > 0 || rint != 16);
	else if (prop == "C02") res.nontrivial = nblocks >= 2 && res.probes.count("query-nonempty");
	else if (prop == "C03") res.nontrivial = cl.had_seek_after_cross;
	else if (prop == "C08") {
		// a refusal immediately before or after the add that cut a block
		std::set<Bytes> cutters;
		if (c.have_df) for (size_t b = 1; b < c.df.data.size(); b++) if (!c.df.data[b].entries.empty()) cutters.insert(c.df.data[b].entries.front().key);
		Bytes last; bool any = false, prev_refused = false, prev_cut = false, adjacent = false;
		for (auto &o : adds) {
			Bytes k = o.argb(0);
			bool ok = !any || mfmt::cmp(k, last) > 0;
			bool cut = ok && cutters.count(k);
			if ((!ok && prev_cut) || (cut && prev_refused)) adjacent = true;
			if (ok) { last = k; any = true; }
			prev_refused = !ok; prev_cut = cut;
		}
		if (adjacent) res.probes["refusal-adjacent-to-block-cut"]++;
		res.nontrivial = adjacent;
	}
	else if (prop == "C11") res.nontrivial = nblocks >= 2 && (cl.had_any_seek || res.probes.count("query-nonempty"));
	return res;
}

const Engine engine_table = { "table", gen_table, exec_table };
