// shared between the merge / sorter / fileset / leak engines
#pragma once
#include "common.h"
extern "C" {
#include <mtbl.h>
}

// merge function families; all associative and commutative, so the model does not depend on fold order
//   0 union : sorted multiset union of newline-terminated tokens (result grows; shows each value used exactly once)
//   1 min   : bytewise smaller operand          (result never longer than an operand)
//   2 lcp   : longest common prefix             (result usually shorter than both operands)
//   3 max   : bytewise larger operand
//   4 sum32 : 32-bit little-endian sum of the first 4 bytes, rest dropped (fixed width)
enum { MF_UNION = 0, MF_MIN = 1, MF_LCP = 2, MF_MAX = 3, MF_SUM32 = 4, MF_N = 5 };
Bytes fold_values(int mfunc, const Bytes &a, const Bytes &b);
// stateless context (callbacks running on pool workers must not touch shared harness state)
void *stateless_merge_ctx(int mfunc);

struct MergeCtx {
	int mfunc = MF_UNION;
	bool stateless = false;
	uint64_t calls = 0, fail_at = 0;
	bool fail_fired = false;
	Bytes failed_key;
	std::map<Bytes, uint64_t> per_key;
};
Bytes union_values(const Bytes &a, const Bytes &b);
void merge_union_cb(void *clos, const uint8_t *key, size_t len_key, const uint8_t *v0, size_t l0,
		    const uint8_t *v1, size_t l1, uint8_t **out, size_t *lout);
void merge_failF_cb(void *clos, const uint8_t *key, size_t len_key, const uint8_t *v0, size_t l0,
		    const uint8_t *v1, size_t l1, uint8_t **out, size_t *lout);
int dupsort_bytes_cb(void *, const uint8_t *, size_t, const uint8_t *v0, size_t l0, const uint8_t *v1, size_t l1);

struct USource {
	mfmt::Entries ents;	// sorted by key; a key may repeat (copies in value order)
	long live_iters = 0;
	uint64_t next_calls = 0;
	int freed = 0;	// calls of the source's free callback (exactly one, at mtbl_source_destroy)
};
mtbl_source *usource_make(USource *s);
bool write_table(const std::string &path, const mfmt::Entries &e, int comp, size_t rint, size_t bsize);

struct MergeSrc {
	bool used = false, user = false, own_source = false;
	int comp = 0;
	size_t rint = 16;
	TableModel ents = new_model();
	std::vector<std::pair<Bytes, Bytes>> extra;	// user-defined sources: further copies of keys in `ents`
	USource us;
	std::string path;
	mtbl_reader *reader = nullptr;
	const mtbl_source *src = nullptr;
};
struct MergeWorld {
	std::vector<MergeSrc> srcs;
	TableModel merged = new_model();
	int mfunc = MF_UNION;
	std::map<Bytes, uint64_t> occ;
	std::vector<std::pair<Bytes, Bytes>> all;
	size_t shared_keys = 0;
	size_t free_cb_wrong = 0;	// user-defined sources whose free callback did not run exactly once at destroy
};
bool mergeworld_build(const Plan &p, RunResult &res, MergeWorld &w, const std::string &dir);
void mergeworld_destroy(MergeWorld &w);
