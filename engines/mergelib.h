// shared between the merge / sorter / fileset / leak engines
#pragma once
#include "common.h"
extern "C" {
#include <mtbl.h>
}

struct MergeCtx {
	uint64_t calls = 0, fail_at = 0;
	bool fail_fired = false;
	Bytes failed_key;
	std::map<Bytes, uint64_t> per_key;
};
Bytes union_values(const Bytes &a, const Bytes &b);
void merge_union_cb(void *clos, const uint8_t *key, size_t len_key, const uint8_t *v0, size_t l0,
		    const uint8_t *v1, size_t l1, uint8_t **out, size_t *lout);
int dupsort_bytes_cb(void *, const uint8_t *, size_t, const uint8_t *v0, size_t l0, const uint8_t *v1, size_t l1);

struct USource {
	mfmt::Entries ents;	// sorted, unique keys
	long live_iters = 0;
	uint64_t next_calls = 0;
};
mtbl_source *usource_make(USource *s);
bool write_table(const std::string &path, const mfmt::Entries &e, int comp, size_t rint, size_t bsize);

struct MergeSrc {
	bool used = false, user = false, own_source = false;
	int comp = 0;
	size_t rint = 16;
	TableModel ents = new_model();
	USource us;
	std::string path;
	mtbl_reader *reader = nullptr;
	const mtbl_source *src = nullptr;
};
struct MergeWorld {
	std::vector<MergeSrc> srcs;
	TableModel merged = new_model();
	std::map<Bytes, uint64_t> occ;
	std::vector<std::pair<Bytes, Bytes>> all;
	size_t shared_keys = 0;
};
bool mergeworld_build(const Plan &p, RunResult &res, MergeWorld &w, const std::string &dir);
void mergeworld_destroy(MergeWorld &w);
