#include "sorterlib.h"
#include <sys/stat.h>
#include <unistd.h>
#include "tablelib.h"
#include "../sim/simsched.h"
#include "../sim/seams.h"
#include <dirent.h>
#include <unistd.h>

Bytes sorter_token(size_t i)
{
	char t[32]; snprintf(t, sizeof t, "a%zu\n", i);
	return t;
}

static size_t dir_entries(const std::string &d)
{
	size_t n = 0;
	DIR *dir = opendir(d.c_str());
	if (!dir) return 0;
	while (struct dirent *e = readdir(dir)) if (strcmp(e->d_name, ".") && strcmp(e->d_name, "..")) n++;
	closedir(dir);
	return n;
}

void run_sorter(const SorterSpec &s, RunResult &res, SorterOutcome &out)
{
	auto yield = [&]() { if (s.yield_between) sim_yield(); };
	MergeCtx mc;
	mc.mfunc = s.mfunc % MF_N;
	mc.fail_at = s.mergefail;
	mtbl_sorter_options *so = mtbl_sorter_options_init();
	if (s.max_mem) mtbl_sorter_options_set_max_memory(so, s.max_mem);
	else if (s.set_zero) mtbl_sorter_options_set_max_memory(so, 0);
	mtbl_sorter_options_set_temp_dir(so, s.tmpdir.c_str());
	if (!s.late_mkdir.empty()) mkdir(s.late_mkdir.c_str(), 0700);	// the name is only used when the first chunk is spilled
	mtbl_sorter_options_set_merge_func(so, s.fail_on_F ? merge_failF_cb : merge_union_cb, s.stateless_merge ? stateless_merge_ctx(s.mfunc) : (void *)&mc);
	if (s.pool) mtbl_sorter_options_set_threadpool(so, s.pool);
	mtbl_sorter *sorter = mtbl_sorter_init(so);
	mtbl_sorter_options_destroy(&so);
	yield();

	// model: multiset union per key; accounting of the documented memory budget
	TableModel model = new_model();
	size_t buffered = 0, nbuf = 0;
	size_t limit = s.max_mem ? s.max_mem : s.set_zero ? 1 : 1073741824;
	uint64_t seen_spills = 0, before_spills = 0; size_t since_spill = 0, chunk_no = 0;
	std::map<Bytes, size_t> last_chunk;
	if (s.check_spill) { sim_ledger lg; sim_ledger_get(&lg); seen_spills = before_spills = (uint64_t)lg.mkstemps; }
	size_t i = 0;
	for (auto &kv : s.adds) {
		mtbl_res r = mtbl_sorter_add(sorter, (const uint8_t *)kv.first.data(), kv.first.size(), (const uint8_t *)kv.second.data(), kv.second.size());
		if (r != mtbl_res_success) {
			out.add_failed = true;
			if (!(s.mergefail && mc.fail_fired) && !s.fail_on_F) res.fail("MODEL", "SORTER-add-refused", "mtbl_sorter_add #" + std::to_string(i) + " failed before iteration started");
			break;
		}
		auto f = model.find(kv.first);
		if (f == model.end()) model[kv.first] = kv.second; else f->second = fold_values(s.mfunc % MF_N, f->second, kv.second);
		buffered += kv.first.size() + kv.second.size(); nbuf++;
		if (buffered >= limit) { out.limit_crossings++; buffered = 0; nbuf = 0; }
		if (s.check_spill) {
			sim_ledger lg; sim_ledger_get(&lg);
			if ((uint64_t)lg.mkstemps > seen_spills) {
				seen_spills = (uint64_t)lg.mkstemps; chunk_no++; res.probes["spill-at-limit"]++;
				if (since_spill + kv.first.size() + kv.second.size() + s.entry_overhead == limit && s.entry_overhead) res.probes["spill-exactly-at-the-limit"]++;
				since_spill = 0;
			}
			else since_spill += kv.first.size() + kv.second.size() + s.entry_overhead;
			if (since_spill >= limit)
				res.fail("MODEL", "SORTER-no-spill-at-limit", "after add #" + std::to_string(i) + " " + std::to_string(since_spill) + " bytes are buffered (keys + values + " + std::to_string(s.entry_overhead) + " per entry, the overhead this build of the sorter was measured to charge), memory limit is " + std::to_string(limit));
			auto lc = last_chunk.find(kv.first);
			size_t this_chunk = (uint64_t)lg.mkstemps > before_spills ? chunk_no - 1 : chunk_no;
			if (lc != last_chunk.end() && lc->second != this_chunk) out.dup_across_chunks = true;
			last_chunk[kv.first] = this_chunk;
			before_spills = (uint64_t)lg.mkstemps;
		}
		i++;
		yield();
	}
	(void)nbuf;

	if (out.add_failed || s.finish == 2) {
		if (s.finish == 2) res.probes["sorter-destroyed-without-iterating"]++;
		mtbl_sorter_destroy(&sorter);
		return;
	}

	auto check_iter = [&](mtbl_iter *it, const char *what) {
		auto pos = model.begin();
		size_t n = 0;
		for (;;) {
			if (n >= s.abandon_after) { res.probes["iterator-abandoned"]++; break; }
			const uint8_t *k, *v; size_t kl, vl;
			mtbl_res r = mtbl_iter_next(it, &k, &kl, &v, &vl);
			if (s.mergefail && mc.fail_fired) {
				if (r == mtbl_res_success) { /* fold failed inside this or an earlier call: nothing further is specified */ }
				res.probes["merge-failure-during-final-merge"]++;
				break;
			}
			if (pos == model.end()) {
				if (r == mtbl_res_success) res.fail("MODEL", std::string("SORTER-extra-") + what, "sorter returned key " + short_repr(Bytes((const char *)k, kl)) + " after all " + std::to_string(n) + " distinct keys");
				break;
			}
			if (r != mtbl_res_success) { res.fail("MODEL", std::string("SORTER-missing-") + what, "sorter output ended after " + std::to_string(n) + " of " + std::to_string(model.size()) + " keys; next expected " + short_repr(pos->first)); break; }
			Bytes gk((const char *)k, kl), gv((const char *)v, vl);
			res.ev.b(gk); res.ev.b(gv);
			if (gk != pos->first) { res.fail("MODEL", std::string(mfmt::cmp(gk, pos->first) > 0 ? "SORTER-key-dropped-" : "SORTER-order-") + what, "sorter returned key " + short_repr(gk) + ", model expects " + short_repr(pos->first)); break; }
			if (gv != pos->second) { res.fail("MODEL", std::string("SORTER-value-") + what, "key " + short_repr(gk) + ": value " + short_repr(gv) + " is not the fold of exactly the added values " + short_repr(pos->second)); break; }
			++pos; ++n;
			if ((n & 7) == 0) yield();
		}
		out.returned = n;
	};

	if (s.finish == 1) {
		unlink(s.outpath.c_str());
		mtbl_writer *w = mtbl_writer_init(s.outpath.c_str(), nullptr);
		mtbl_res r = mtbl_sorter_write(sorter, w);
		yield();
		mtbl_writer_destroy(&w);
		if (s.mergefail && mc.fail_fired) { res.probes["merge-failure-during-sorter-write"]++; }
		else {
			if (r != mtbl_res_success && !model.empty()) res.fail("MODEL", "SORTER-write-failed", "mtbl_sorter_write reported failure");
			mtbl_reader *rd = mtbl_reader_init(s.outpath.c_str(), nullptr);
			if (!rd) res.fail("MODEL", "SORTER-write-unreadable", "file written by mtbl_sorter_write does not open");
			else {
				mtbl_iter *it = mtbl_source_iter(mtbl_reader_source(rd));
				SorterSpec tmp; (void)tmp;
				size_t keep = s.abandon_after;
				const_cast<SorterSpec &>(s).abandon_after = (size_t)-1;
				check_iter(it, "written-file");
				const_cast<SorterSpec &>(s).abandon_after = keep;
				mtbl_iter_destroy(&it);
				mtbl_reader_destroy(&rd);
			}
		}
		if (s.late_calls && !(s.mergefail && mc.fail_fired)) {
			// iteration has begun (inside mtbl_sorter_write): further calls must be refused
			if (mtbl_sorter_add(sorter, (const uint8_t *)"zz", 2, (const uint8_t *)"late\n", 5) == mtbl_res_success)
				res.fail("MODEL", "SORTER-late-add-accepted", "mtbl_sorter_add succeeded after mtbl_sorter_write");
			mtbl_writer *w2 = mtbl_writer_init((s.outpath + ".2").c_str(), nullptr);
			if (mtbl_sorter_write(sorter, w2) == mtbl_res_success) res.fail("MODEL", "SORTER-late-write-accepted", "second mtbl_sorter_write succeeded after iteration had begun");
			mtbl_writer_destroy(&w2);
			unlink((s.outpath + ".2").c_str());
			res.probes["late-calls-refused"]++;
		}
		mtbl_sorter_destroy(&sorter);
		return;
	}

	mtbl_iter *it = mtbl_sorter_iter(sorter);
	yield();
	if (!it) {
		out.iter_null = true;
		if (!(s.mergefail && mc.fail_fired)) res.fail("MODEL", "SORTER-iter-null", "mtbl_sorter_iter returned NULL");
		mtbl_sorter_destroy(&sorter);
		return;
	}
	if (s.late_calls) {
		if (mtbl_sorter_add(sorter, (const uint8_t *)"zz", 2, (const uint8_t *)"late\n", 5) == mtbl_res_success)
			res.fail("MODEL", "SORTER-late-add-accepted", "mtbl_sorter_add succeeded after mtbl_sorter_iter");
		mtbl_writer *w2 = mtbl_writer_init((s.tmpdir + "/../late.mtbl").c_str(), nullptr);
		if (w2) {
			if (mtbl_sorter_write(sorter, w2) == mtbl_res_success) res.fail("MODEL", "SORTER-late-write-accepted", "mtbl_sorter_write succeeded after mtbl_sorter_iter");
			mtbl_writer_destroy(&w2);
			unlink((s.tmpdir + "/../late.mtbl").c_str());
		}
		res.probes["late-calls-refused"]++;
	}
	check_iter(it, "iter");
	mtbl_iter_destroy(&it);
	yield();
	mtbl_sorter_destroy(&sorter);
	(void)dir_entries;
}


// ------------------------------------------------ calibration of the sorter's accounting
static void calib_merge(void *, const uint8_t *, size_t, const uint8_t *v0, size_t l0, const uint8_t *, size_t, uint8_t **out, size_t *lout)
{
	*out = (uint8_t *)malloc(l0 ? l0 : 1); memcpy(*out, v0, l0); *lout = l0;
}
// adds identical-size entries until the first spill file appears; returns the number of adds (0 = never)
static size_t adds_until_spill(const std::string &tmpdir, size_t limit, size_t klen, size_t vlen)
{
	mtbl_sorter_options *so = mtbl_sorter_options_init();
	mtbl_sorter_options_set_max_memory(so, limit);
	mtbl_sorter_options_set_temp_dir(so, tmpdir.c_str());
	mtbl_sorter_options_set_merge_func(so, calib_merge, nullptr);
	mtbl_sorter *sr = mtbl_sorter_init(so);
	mtbl_sorter_options_destroy(&so);
	sim_ledger lg; sim_ledger_get(&lg);
	int64_t before = lg.mkstemps;
	size_t n = 0;
	Bytes v(vlen, 'v');
	for (size_t i = 0; i < limit; i++) {
		char k[64]; snprintf(k, sizeof k, "%0*zu", (int)klen, i);
		if (mtbl_sorter_add(sr, (const uint8_t *)k, klen, (const uint8_t *)v.data(), vlen) != mtbl_res_success) break;
		sim_ledger_get(&lg);
		if (lg.mkstemps > before) { n = i + 1; break; }
	}
	mtbl_sorter_destroy(&sr);
	return n;
}
size_t sorter_entry_overhead(const std::string &scratch)
{
	static long cached = -1;
	if (cached >= 0) return (size_t)cached;
	cached = 0;
	std::string d = scratch + "/calib";
	mkdir(d.c_str(), 0700);
	// the first spill is at the smallest n with n * e >= L  (or > L: the same n, since no multiple of a candidate e
	// up to 64 + payload equals these primes)
	const size_t L0 = 100003, L1 = 70001;
	size_t n0 = adds_until_spill(d, L0, 4, 4), n1 = adds_until_spill(d, L1, 10, 30);
	rmdir(d.c_str());
	if (!n0 || !n1) return 0;
	long found = -1;
	for (size_t o = 0; o <= 64; o++) {
		size_t e0 = o + 8, e1 = o + 40;
		if ((L0 + e0 - 1) / e0 == n0 && (L1 + e1 - 1) / e1 == n1) { if (found >= 0) return 0; found = (long)o; }
	}
	if (found > 0) cached = found;
	return (size_t)cached;
}
