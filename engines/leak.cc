// Engine `leak`: life-cycle histories over every object type with destroy at
// every point, early abandonment and injected failures; afterwards the
// resource ledger must balance: descriptors, mappings, temp files, heap bytes.
// Serves C18.  The history is executed several times in the same process and
// the heap is judged on passes >= 2 (one-time lazy allocations are absorbed).
#include <sys/socket.h>
#include <errno.h>
#include <signal.h>
#include <sys/wait.h>
#include "common.h"
#include "tablelib.h"
#include "sorterlib.h"
#include "../sim/simsched.h"
#include "../sim/seams.h"
#include <algorithm>
#include <dirent.h>
#include <fcntl.h>
#include <sys/stat.h>
#include <unistd.h>

extern "C" size_t __sanitizer_get_current_allocated_bytes(void) __attribute__((weak));
extern "C" int __lsan_do_recoverable_leak_check(void) __attribute__((weak));

static Plan gen_leak(const std::string &prop, const std::string &tier, uint64_t seed, uint64_t run)
{
	Plan p;
	p.engine = "leak"; p.prop = prop; p.tier = tier; p.seed = seed; p.run = run;
	Rng r(seed, run, 0x1eac);
	int n = 1 + (int)r.below(5);
	static const char *kinds[] = { "writer", "reader", "merger", "sorter", "sorter", "fileset", "pool" };
	for (int i = 0; i < n; i++)
		p.op("sc", { kinds[r.below(7)], std::to_string(r.below(1u << 30)) });
	return p;
}

namespace {

struct Counts { long fds = 0, maps = 0, tmpfiles = 0; size_t heap = 0; };

static long count_fds()
{
	long n = 0;
	DIR *d = opendir("/proc/self/fd");
	if (!d) return -1;
	while (struct dirent *e = readdir(d)) if (e->d_name[0] != '.') n++;
	closedir(d);
	return n - 1;	// the directory stream itself
}
static long count_maps(const std::string &needle)
{
	long n = 0;
	FILE *f = fopen("/proc/self/maps", "r");
	if (!f) return -1;
	char line[1024];
	while (fgets(line, sizeof line, f)) if (strstr(line, needle.c_str())) n++;
	fclose(f);
	return n;
}
static long count_files(const std::string &dir)
{
	long n = 0;
	DIR *d = opendir(dir.c_str());
	if (!d) return 0;
	while (struct dirent *e = readdir(d)) {
		if (!strcmp(e->d_name, ".") || !strcmp(e->d_name, "..")) continue;
		std::string p = dir + "/" + e->d_name;
		struct stat st;
		if (lstat(p.c_str(), &st) == 0 && S_ISDIR(st.st_mode)) n += count_files(p); else if (strncmp(e->d_name, ".mtbl.", 6) == 0) n++;
	}
	closedir(d);
	return n;
}

struct Hist {
	const Plan &p;
	RunResult &res;	// probes / faults / model violations of the current pass
	std::string dir;
	Hist(const Plan &pp, RunResult &r) : p(pp), res(r), dir(scratch_dir()) {}

	struct PoolCtx { mtbl_threadpool *tp = nullptr; bool sched = false; };
	PoolCtx pool_begin(Rng &r, int pool)
	{
		PoolCtx c;
		if (pool < 0) return c;
		sim_sched_cfg sc; sched_cfg_parse(sched_cfg_gen(r, 800), &sc);
		sim_sched_begin(&sc);
		c.sched = true;
		c.tp = mtbl_threadpool_init((size_t)pool);
		return c;
	}
	void pool_end(PoolCtx &c)
	{
		if (!c.sched) return;
		mtbl_threadpool_destroy(&c.tp);
		sim_sched_stats st; sim_sched_end(&st);
		res.steps += st.steps; res.sched_hash ^= st.choices_hash;
		if (st.unjoined) res.fail("SCHED", "THREAD-LEAK", std::to_string(st.unjoined) + " threads alive after every destroy returned");
		if (st.spurious) res.faults["spurious-wakeup"] += st.spurious;
	}

	mfmt::Entries gen_entries(Rng &r, size_t n, int big)
	{
		KeyGen kg(r);
		TableModel m = new_model();
		for (size_t i = 0; i < n; i++) m[kg.key()] = kg.value(big);
		return mfmt::Entries(m.begin(), m.end());
	}

	void sc_writer(Rng &r)
	{
		int pool = r.chance(1, 2) ? -1 : (int)r.below(4);
		PoolCtx pc = pool_begin(r, pool);
		mtbl_writer_options *wo = mtbl_writer_options_init();
		mtbl_writer_options_set_compression(wo, (mtbl_compression_type)r.below(6));
		mtbl_writer_options_set_block_size(wo, 1024);
		if (pc.tp) mtbl_writer_options_set_threadpool(wo, pc.tp);
		std::string path = dir + "/w.mtbl";
		unlink(path.c_str());
		mtbl_writer *w;
		if (r.chance(1, 2)) w = mtbl_writer_init(path.c_str(), wo);
		else { int fd = open(path.c_str(), O_WRONLY | O_CREAT | O_TRUNC, 0644); w = mtbl_writer_init_fd(fd, wo); close(fd); }
		mtbl_writer_options_destroy(&wo);
		auto e = gen_entries(r, r.below(80), 150);
		size_t refused = 0;
		for (auto &kv : e) {
			if (mtbl_writer_add(w, (const uint8_t *)kv.first.data(), kv.first.size(), (const uint8_t *)kv.second.data(), kv.second.size()) != mtbl_res_success) refused++;
			if (r.chance(1, 4) && mtbl_writer_add(w, (const uint8_t *)kv.first.data(), kv.first.size(), (const uint8_t *)"x", 1) != mtbl_res_success) refused++;
		}
		if (refused) res.probes["refused-add"] += refused;
		// an existing path must be refused and leave nothing open
		if (r.chance(1, 3)) { mtbl_writer *w2 = mtbl_writer_init(path.c_str(), nullptr); if (w2) mtbl_writer_destroy(&w2); res.probes["writer-init-refused"]++; }
		mtbl_writer_destroy(&w);
		pool_end(pc);
		// a descriptor that cannot seek (pipe, socket): whether the writer takes it, refuses it or stops the process over
		// it is not C18's business - but if it returns, nothing may stay open.  Runs in a forked child (no pool, the
		// scheduler is off), which compares its own descriptor count before and after.
		if (r.chance(1, 4)) {
			int fds[2];
			bool sock = r.chance(1, 2);
			int comp3 = (int)r.below(6);
			size_t n3 = r.below(6);
			size_t vl3[6]; for (auto &x : vl3) x = r.below(40);
			if ((sock ? socketpair(AF_UNIX, SOCK_STREAM, 0, fds) : pipe(fds)) == 0) {
				fflush(stdout); fflush(stderr);
				pid_t pid = fork();
				if (pid == 0) {
					int dn = open("/dev/null", O_WRONLY);
					if (dn >= 0) { dup2(dn, 2); close(dn); }
					signal(SIGABRT, SIG_DFL);
					long before = count_fds();
					mtbl_writer_options *wo2 = mtbl_writer_options_init();
					mtbl_writer_options_set_compression(wo2, (mtbl_compression_type)comp3);
					mtbl_writer *w3 = mtbl_writer_init_fd(fds[1], wo2);
					mtbl_writer_options_destroy(&wo2);
					if (w3) {
						// nobody reads: everything written must fit the pipe / socket buffer (a few hundred bytes + trailer)
						for (size_t i = 0; i < n3; i++) {
							char k3[16]; snprintf(k3, sizeof k3, "key%02zu", i);
							Bytes v3(vl3[i], 'v');
							(void)!mtbl_writer_add(w3, (const uint8_t *)k3, strlen(k3), (const uint8_t *)v3.data(), v3.size());
						}
						mtbl_writer_destroy(&w3);
					}
					long after = count_fds();
					_exit(after != before ? 3 : 0);
				}
				close(fds[0]); close(fds[1]);
				int st = 0;
				while (waitpid(pid, &st, 0) < 0 && errno == EINTR) ;
				if (WIFEXITED(st) && WEXITSTATUS(st) == 3)
					res.fail("LEAK", "FD", std::string("mtbl_writer_init_fd on a ") + (sock ? "socket" : "pipe") + " (a descriptor that cannot seek) returned and left a descriptor open");
				else if (WIFEXITED(st)) res.probes["writer-on-unseekable-descriptor"]++;
				else res.unjudged["writer-on-unseekable-descriptor-stopped-the-process"]++;
			}
		}
		res.probes["sc-writer"]++;
	}

	void drive_iters(Rng &r, const mtbl_source *src, const std::vector<Bytes> &keys)
	{
		std::vector<mtbl_iter *> its;
		int n = 1 + (int)r.below(5);
		auto key = [&]() { return keys.empty() ? Bytes("k") : keys[r.below(keys.size())]; };
		for (int i = 0; i < n; i++) {
			Bytes a = key(), b = key();
			mtbl_iter *it;
			switch (r.below(4)) {
			case 0: it = mtbl_source_iter(src); break;
			case 1: it = mtbl_source_get(src, (const uint8_t *)a.data(), a.size()); break;
			case 2: it = mtbl_source_get_prefix(src, (const uint8_t *)a.data(), a.size() / 2); break;
			default: it = mtbl_source_get_range(src, (const uint8_t *)a.data(), a.size(), (const uint8_t *)b.data(), b.size());
			}
			its.push_back(it);
		}
		int steps = (int)r.below(40);
		for (int s = 0; s < steps; s++) {
			mtbl_iter *it = its[r.below(its.size())];
			const uint8_t *k, *v; size_t kl, vl;
			if (r.chance(1, 5)) { Bytes a = key(); (void)!mtbl_iter_seek(it, (const uint8_t *)a.data(), a.size()); }
			else (void)!mtbl_iter_next(it, &k, &kl, &v, &vl);
		}
		if (r.chance(1, 3)) {	// drain one completely
			const uint8_t *k, *v; size_t kl, vl;
			int guard = 0;
			while (mtbl_iter_next(its[0], &k, &kl, &v, &vl) == mtbl_res_success && ++guard < 10000) ;
			res.probes["iterator-drained"]++;
		} else res.probes["iterator-abandoned"]++;
		std::vector<size_t> order;
		for (size_t i = 0; i < its.size(); i++) order.push_back(i);
		for (size_t i = order.size(); i > 1; i--) std::swap(order[i - 1], order[r.below(i)]);
		for (size_t i : order) mtbl_iter_destroy(&its[i]);
	}

	void sc_reader(Rng &r)
	{
		std::string path = dir + "/r.mtbl";
		auto e = gen_entries(r, r.below(120), 200);
		write_table(path, e, (int)r.below(6), 1 + r.below(8), 1024);
		std::vector<Bytes> keys;
		for (auto &kv : e) keys.push_back(kv.first);
		bool ov = r.below(2), om = r.below(2);
		mtbl_reader_options *ro = make_reader_options(ov, om);
		mtbl_reader *rd;
		if (r.chance(1, 2)) rd = mtbl_reader_init(path.c_str(), ro);
		else { int fd = open(path.c_str(), O_RDONLY); rd = mtbl_reader_init_fd(fd, ro); close(fd); }
		mtbl_reader_options_destroy(&ro);
		if (rd) { drive_iters(r, mtbl_reader_source(rd), keys); mtbl_reader_destroy(&rd); }
		// fault: the kernel refuses the mapping (ENOMEM); the open must fail cleanly, releasing what it had acquired
		if (r.chance(1, 3)) {
			sim_mmap_fail_in(1);
			mtbl_reader *no;
			if (r.chance(1, 2)) no = mtbl_reader_init(path.c_str(), nullptr);
			else { int fd = open(path.c_str(), O_RDONLY); no = mtbl_reader_init_fd(fd, nullptr); close(fd); }
			sim_mmap_fail_in(0);
			if (no) { res.fail("MODEL", "READER-opened-without-mapping", "mtbl_reader_init returned a reader although mmap failed"); mtbl_reader_destroy(&no); }
			else { res.faults["mmap-fails"]++; }
		}
		// files that do not open as a table
		std::string junk = dir + "/junk.bin";
		Bytes jb; size_t jn = r.below(1500); for (size_t i = 0; i < jn; i++) jb.push_back((char)r.below(256));
		write_file(junk, jb);
		mtbl_reader *bad = mtbl_reader_init(junk.c_str(), nullptr);
		if (bad) mtbl_reader_destroy(&bad); else res.probes["not-a-table-refused"]++;
		bad = mtbl_reader_init((dir + "/missing.mtbl").c_str(), nullptr);
		if (bad) mtbl_reader_destroy(&bad);
		if (!e.empty()) {	// damaged trailer: opens fail after the mapping was made
			Bytes f = read_file(path);
			f[f.size() - 1] ^= 0x55;
			write_file(junk, f);
			bad = mtbl_reader_init(junk.c_str(), nullptr);
			if (bad) mtbl_reader_destroy(&bad); else res.probes["damaged-table-refused"]++;
			f = read_file(path);
			for (int i = 0; i < 8; i++) f[f.size() - 512 + i] = (char)0xff;	// index offset out of range
			write_file(junk, f);
			bad = mtbl_reader_init(junk.c_str(), nullptr);
			if (bad) mtbl_reader_destroy(&bad); else res.probes["damaged-table-refused"]++;
		}
		res.probes["sc-reader"]++;
	}

	void sc_merger(Rng &r)
	{
		Plan mp;
		KeyGen kg(r);
		size_t nsrc = r.below(5), U = 1 + r.below(25);
		std::vector<Bytes> pool;
		for (size_t i = 0; i < U; i++) pool.push_back(kg.key());
		for (size_t s = 0; s < nsrc; s++) {
			mp.op("src", { std::to_string(s), r.chance(1, 3) ? "user" : "table", std::to_string(r.below(6)), std::to_string(1 + r.below(6)) });
			for (auto &k : pool) if (r.chance(1, 2)) mp.op("ent", { std::to_string(s), spec_of(k), "0" });
		}
		MergeWorld w;
		RunResult tmp;
		if (!mergeworld_build(mp, tmp, w, dir)) { res.fail("INFRA", "mergeworld", tmp.detail); return; }
		MergeCtx mc;
		mc.mfunc = r.chance(1, 2) ? MF_UNION : 1 + (int)r.below(MF_N - 1);
		if (r.chance(1, 3)) mc.fail_at = 1 + r.below(6);
		mtbl_merger_options *mo = mtbl_merger_options_init();
		int mode = (int)r.below(3);
		if (mode == 0) mtbl_merger_options_set_merge_func(mo, merge_union_cb, &mc);
		if (mode == 2) mtbl_merger_options_set_dupsort_func(mo, dupsort_bytes_cb, nullptr);
		mtbl_merger *m = mtbl_merger_init(mo);
		mtbl_merger_options_destroy(&mo);
		for (auto &s : w.srcs) if (s.used) mtbl_merger_add_source(m, s.src);
		std::vector<Bytes> keys;
		for (auto &kv : w.merged) keys.push_back(kv.first);
		drive_iters(r, mtbl_merger_source(m), keys);
		if (mc.fail_fired) { res.probes["merge-callback-failed"]++; res.faults["merge-callback-fails"]++; }
		mtbl_merger_destroy(&m);
		for (auto &s : w.srcs) if (s.user && s.us.live_iters != 0) res.fail("LEAK", "ITER-LEAK-user-source", std::to_string(s.us.live_iters) + " iterators of a user-defined source were never destroyed");
		mergeworld_destroy(w);
		if (w.free_cb_wrong) res.fail("LEAK", "SOURCE-free-callback", "mtbl_source_destroy did not run the free callback of a user-defined source exactly once");
		res.probes["sc-merger"]++;
	}

	void sc_sorter(Rng &r)
	{
		SorterSpec s;
		s.tmpdir = dir + "/spill";
		mkdir(s.tmpdir.c_str(), 0700);
		int pool = r.chance(1, 2) ? -1 : (int)r.below(4);
		KeyGen kg(r);
		size_t n = r.below(60);
		std::vector<Bytes> pool_keys;
		for (size_t i = 0; i < 1 + n / 3; i++) pool_keys.push_back(kg.key());
		for (size_t i = 0; i < n; i++) s.adds.push_back({ pool_keys[r.below(pool_keys.size())], sorter_token(i) });
		s.max_mem = r.chance(1, 5) ? 0 : 1 + r.below(400);
		// merge function families: results longer than, as long as and shorter than the operands take different paths
		s.mfunc = r.chance(1, 2) ? MF_UNION : 1 + (int)r.below(MF_N - 1);
		res.probes[std::string("sorter-merge-func-") + "umlxs"[s.mfunc]]++;
		uint64_t f = r.below(10);
		s.finish = f < 4 ? 0 : f < 6 ? 1 : 2;
		if (r.chance(1, 3)) s.abandon_after = r.below(6);
		s.outpath = dir + "/sorted.mtbl";
		s.late_calls = r.chance(1, 3);
		if (pool < 0 && r.chance(1, 3)) s.mergefail = 1 + r.below(8);
		PoolCtx pc = pool_begin(r, pool);
		if (pc.sched) { s.pool = pc.tp; s.stateless_merge = true; s.yield_between = false; }
		SorterOutcome out;
		RunResult tmp;
		run_sorter(s, tmp, out);
		if (tmp.viol && tmp.vclass != "MODEL") res.fail(tmp.vclass, tmp.site, tmp.detail);
		for (auto &kv : tmp.probes) res.probes[kv.first] += kv.second;
		pool_end(pc);
		if (out.add_failed) { res.probes["sorter-add-reported-failure"]++; res.faults["merge-callback-fails"]++; }
		if (out.iter_null) { res.probes["sorter-iter-reported-failure"]++; res.faults["merge-callback-fails"]++; }
		if (pool > 0 && s.finish == 2) res.probes["pooled-sorter-destroyed-in-flight"]++;
		res.probes["sc-sorter"]++;
	}

	void sc_fileset(Rng &r)
	{
		std::string fdir = dir + "/fs";
		mkdir(fdir.c_str(), 0700);
		int nfiles = 1 + (int)r.below(4);
		std::vector<std::string> names;
		std::vector<Bytes> keys;
		for (int i = 0; i < nfiles; i++) {
			std::string nm = "t" + std::to_string(i) + ".mtbl";
			auto e = gen_entries(r, r.below(30), 50);
			for (auto &kv : e) keys.push_back(kv.first);
			for (auto &kv : e) kv.second = "s" + std::to_string(i) + "\n";
			unlink((fdir + "/" + nm).c_str());
			write_table(fdir + "/" + nm, e, (int)r.below(6), 4, 1024);
			names.push_back(nm);
		}
		write_file(fdir + "/junk.mtbl", "this is not a table");
		// (mtbl_fileset_partition asserts on a setfile line that is not a table; that is outside
		// the listed properties, so histories that partition never list the junk file)
		bool do_partition = r.chance(1, 3), allow_junk = !do_partition;
		auto write_set = [&](int version) {
			Bytes sf;
			for (auto &nm : names) if (r.chance(3, 4)) sf += (r.chance(1, 3) ? fdir + "/" + nm : nm) + "\n";
			if (r.chance(1, 3)) sf += "missing.mtbl\n";
			if (allow_junk && r.chance(1, 3)) sf += "junk.mtbl\n";
			std::string sp = fdir + "/set.fileset";
			write_file(sp, sf);
			struct timespec ts[2] = { { 1000000 + version, 0 }, { 1000000 + version, 0 } };
			utimensat(AT_FDCWD, sp.c_str(), ts, 0);
		};
		int version = 0;
		write_set(version++);
		sim_clock_set(5000, 0);
		mtbl_fileset_options *fo = mtbl_fileset_options_init();
		mtbl_fileset_options_set_merge_func(fo, merge_union_cb, nullptr);
		mtbl_fileset_options_set_reload_interval(fo, (uint32_t)r.below(3) * 30);
		std::vector<mtbl_fileset *> hs;
		hs.push_back(mtbl_fileset_init((fdir + "/set.fileset").c_str(), fo));
		int ndup = (int)r.below(3);
		for (int i = 0; i < ndup; i++) hs.push_back(mtbl_fileset_dup(hs[r.below(hs.size())], fo));
		mtbl_fileset_options_destroy(&fo);
		int steps = 2 + (int)r.below(8);
		for (int s = 0; s < steps; s++) {
			mtbl_fileset *h = hs[r.below(hs.size())];
			switch (r.below(5)) {
			case 0: write_set(version++); break;
			case 1: sim_clock_advance((int64_t)r.below(100), 0); mtbl_fileset_reload(h); break;
			case 2: mtbl_fileset_reload_now(h); break;
			default: drive_iters(r, mtbl_fileset_source(h), keys);
			}
		}
		if (do_partition) {
			mtbl_merger *m1, *m2;
			mtbl_fileset_partition(hs[0], [](const char *fn, void *) { return strstr(fn, "t0") != nullptr; }, nullptr, &m1, &m2);
			mtbl_merger_destroy(&m1); mtbl_merger_destroy(&m2);
			res.probes["fileset-partition"]++;
		}
		for (size_t i = hs.size(); i > 1; i--) std::swap(hs[i - 1], hs[r.below(i)]);
		for (auto &h : hs) mtbl_fileset_destroy(&h);
		res.probes["sc-fileset"]++;
	}

	void sc_pool(Rng &r)
	{
		// pools created and destroyed unused, or shared by a writer and a sorter in sequence
		sim_sched_cfg sc; sched_cfg_parse(sched_cfg_gen(r, 600), &sc);
		sim_sched_begin(&sc);
		mtbl_threadpool *tp = mtbl_threadpool_init(r.below(4));
		if (r.chance(2, 3)) {
			mtbl_writer_options *wo = mtbl_writer_options_init();
			mtbl_writer_options_set_threadpool(wo, tp);
			mtbl_writer_options_set_block_size(wo, 1024);
			std::string path = dir + "/pw.mtbl";
			unlink(path.c_str());
			mtbl_writer *w = mtbl_writer_init(path.c_str(), wo);
			mtbl_writer_options_destroy(&wo);
			for (auto &kv : gen_entries(r, r.below(60), 200))
				(void)!mtbl_writer_add(w, (const uint8_t *)kv.first.data(), kv.first.size(), (const uint8_t *)kv.second.data(), kv.second.size());
			SorterSpec s;
			s.tmpdir = dir + "/spill"; mkdir(s.tmpdir.c_str(), 0700);
			s.pool = tp; s.stateless_merge = true; s.max_mem = 1 + r.below(200); s.finish = (int)r.below(3); s.outpath = dir + "/ps.mtbl";
			for (size_t i = 0; i < 20; i++) s.adds.push_back({ Bytes(1, (char)('a' + r.below(6))), sorter_token(i) });
			SorterOutcome out; RunResult tmp;
			run_sorter(s, tmp, out);
			mtbl_writer_destroy(&w);
		}
		mtbl_threadpool_destroy(&tp);
		sim_sched_stats st; sim_sched_end(&st);
		res.steps += st.steps;
		if (st.unjoined) res.fail("SCHED", "THREAD-LEAK", std::to_string(st.unjoined) + " threads alive after every destroy returned");
		res.probes["sc-pool"]++;
	}

	void run()
	{
		for (auto &o : p.ops) {
			if (o.name != "sc") continue;
			Rng r((uint64_t)o.argi(1), 0x5c, 1);
			const std::string &k = o.arg(0);
			if (k == "writer") sc_writer(r);
			else if (k == "reader") sc_reader(r);
			else if (k == "merger") sc_merger(r);
			else if (k == "sorter") sc_sorter(r);
			else if (k == "fileset") sc_fileset(r);
			else if (k == "pool") sc_pool(r);
			scratch_clean();
		}
	}
};

static Counts measure(const std::string &dir)
{
	Counts c;
	c.fds = count_fds();
	c.maps = count_maps(dir);
	c.tmpfiles = count_files(dir);
	c.heap = __sanitizer_get_current_allocated_bytes ? __sanitizer_get_current_allocated_bytes() : 0;
	return c;
}
} // namespace

static RunResult exec_leak(const Plan &p)
{
	RunResult res;
	std::string dir = scratch_dir();
	sim_ledger_reset();
	long heap_delta[4] = { 0, 0, 0, 0 };
	Counts base = measure(dir);
	int passes = 2;
	for (int pass = 0; pass < passes && pass < 4; pass++) {
		Counts before = measure(dir);
		{
			RunResult local;
			Hist h(p, local);
			h.run();
			if (pass == 0) {
				res.probes = local.probes; res.faults = local.faults; res.steps = local.steps; res.sched_hash = local.sched_hash;
				if (local.viol) res.fail(local.vclass, local.site, local.detail);
				res.ev.u(local.sched_hash);
			}
		}
		Counts after = measure(dir);
		sim_ledger lg; sim_ledger_get(&lg);
		if (after.fds != before.fds)
			res.fail("LEAK", "FD", "pass " + std::to_string(pass) + ": " + std::to_string(after.fds - before.fds) + " file descriptors still open after every object was destroyed (ledger: " + std::to_string(lg.live_fds) + " live through the seams)");
		if (after.maps != before.maps || lg.live_maps != 0)
			res.fail("LEAK", "MAPPING", "pass " + std::to_string(pass) + ": " + std::to_string(after.maps - before.maps) + " mappings of table files remain (ledger live_maps=" + std::to_string(lg.live_maps) + ")");
		if (after.tmpfiles != 0 || lg.live_tmp != 0)
			res.fail("LEAK", "TMPFILE", "pass " + std::to_string(pass) + ": " + std::to_string(after.tmpfiles) + " sorter temp files remain (ledger live_tmp=" + std::to_string(lg.live_tmp) + ")");
		heap_delta[pass] = (long)after.heap - (long)before.heap;
		// heap: judged from the second pass on; a non-zero delta must repeat to count
		if (pass >= 1 && heap_delta[pass] > 0 && passes < 3) passes = 3;
		if (res.viol) break;
	}
	if (__sanitizer_get_current_allocated_bytes && !res.viol) {
		if (passes == 3 && heap_delta[1] > 0 && heap_delta[2] > 0)
			res.fail("LEAK", "HEAP", std::to_string(heap_delta[2]) + " bytes of heap remain allocated per execution of the history after every object was destroyed (passes 2 and 3: " + std::to_string(heap_delta[1]) + ", " + std::to_string(heap_delta[2]) + ")");
	}
	(void)base;
	res.ev.u((uint64_t)heap_delta[1]);
	res.nontrivial = res.probes.count("iterator-abandoned") || res.probes.count("sorter-destroyed-without-iterating") || res.faults.count("merge-callback-fails") || res.probes.count("not-a-table-refused") || res.probes.count("refused-add");
	return res;
}

extern const Engine engine_leak = { "leak", gen_leak, exec_leak };
