// Sorter driver shared by the sorter / sched / leak engines.
#pragma once
#include "common.h"
#include "mergelib.h"

struct SorterSpec {
	size_t max_mem = 0;		// 0 = leave default
	bool set_zero = false;		// call set_max_memory(0): clamped to the minimum (1 byte in the MTBL_VERIF build)
	std::string tmpdir;
	mtbl_threadpool *pool = nullptr;
	int finish = 0;			// 0 iterate, 1 mtbl_sorter_write to a writer + read back, 2 destroy without iterating
	int mfunc = 0;			// merge function family (mergelib.h)
	bool stateless_merge = false;	// pooled sorters: the callback must not touch shared harness state
	uint64_t mergefail = 0;		// callback returns NULL at its j-th invocation (non-pooled only)
	bool late_calls = false;	// after iteration started: further add/write calls must be refused
	size_t abandon_after = (size_t)-1;	// stop iterating after n entries
	bool check_spill = false;	// non-pooled: after every add the bytes buffered since the last observed spill are below the limit
	bool yield_between = false;	// sim_yield() between API calls (caller tasks under the scheduler)
	std::vector<std::pair<Bytes, Bytes>> adds;
	std::string outpath;		// for finish == 1
};
struct SorterOutcome {
	size_t chunks_spilled = 0;	// mkstemp calls seen
	size_t limit_crossings = 0;	// how often the model says the buffered bytes reached the limit
	bool add_failed = false, iter_null = false;
	size_t returned = 0;
	bool dup_across_chunks = false;	// (non-pooled) some key was added in two different chunks
};
// runs one sorter life cycle; model violations go to res (site prefix SORTER-)
void run_sorter(const SorterSpec &s, RunResult &res, SorterOutcome &out);
// value token for add #i of a run: unique per add
Bytes sorter_token(size_t i);
