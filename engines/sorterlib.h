// Sorter driver shared by the sorter / sched / leak engines.
#pragma once
#include "common.h"
#include "mergelib.h"

struct SorterSpec {
	size_t max_mem = 0;		// 0 = leave default
	size_t entry_overhead = 0;	// from sorter_entry_overhead(); added per entry by the spill oracle
	bool set_zero = false;		// call set_max_memory(0): clamped to the minimum (1 byte in the MTBL_VERIF build)
	std::string tmpdir;
	std::string late_mkdir;		// if set: this directory (the temp dir) is created only after the options were filled in
	mtbl_threadpool *pool = nullptr;
	int finish = 0;			// 0 iterate, 1 mtbl_sorter_write to a writer + read back, 2 destroy without iterating
	int mfunc = 0;			// merge function family (mergelib.h)
	bool fail_on_F = false;		// pooled sorters: the (stateless) callback refuses to merge two values that begin with 'F'
	bool stateless_merge = false;	// pooled sorters: the callback must not touch shared harness state
	uint64_t mergefail = 0;		// callback returns NULL at its j-th invocation (non-pooled only)
	bool late_calls = false;	// after iteration started: further add/write calls must be refused
	size_t abandon_after = (size_t)-1;	// stop iterating after n entries
	bool check_spill = false;	// non-pooled: after every add the bytes buffered since the last observed spill are below the limit
	bool yield_between = false;	// sim_yield() between API calls (caller tasks under the scheduler)
	std::vector<std::pair<Bytes, Bytes>> adds;
	std::string outpath;		// for finish == 1
};
// How many bytes the sorter charges per entry on top of key + value.  The manual defines the limit as 'the total number
// of bytes allocated for key-value entries'; what that is per entry is the implementation's business, so it is measured,
// not assumed: once per process two calibration sorts (different entry sizes, limits that no sum hits exactly) are run
// and the overhead is solved from the add at which the first spill file appears.  If the two do not agree on one
// constant the accounting is not 'constant + key + value' and 0 is used (key + value bytes are a lower bound of any
// accounting).  Call it outside the part of a run whose temp files are counted.
size_t sorter_entry_overhead(const std::string &scratch_dir);

struct SorterOutcome {
	size_t chunks_spilled = 0;	// mkstemp calls seen
	size_t limit_crossings = 0;	// how often the model says the buffered bytes reached the limit
	bool add_failed = false, iter_null = false;
	size_t returned = 0;
	bool dup_across_chunks = false;	// (non-pooled) some key was added in two different chunks
};
// runs one sorter life cycle; model violations go to res (site prefix SORTER-)
void run_sorter(const SorterSpec &s, RunResult &res, SorterOutcome &out);
// value token for add #i of a run: unique per add
Bytes sorter_token(size_t i);
