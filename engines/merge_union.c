/* merge DSO for src/mtbl_merge: multiset union of newline-separated tokens
 * (same function as the engines' in-process merge callback). */
#include <stdint.h>
#include <stdlib.h>
#include <string.h>
static int cmpstr(const void *a, const void *b) { return strcmp(*(char *const *)a, *(char *const *)b); }
void union_func(void *clos, const uint8_t *key, size_t len_key, const uint8_t *v0, size_t l0,
		const uint8_t *v1, size_t l1, uint8_t **out, size_t *lout)
{
	(void)clos; (void)key; (void)len_key;
	char *buf = malloc(l0 + l1 + 2);
	size_t n = 0;
	memcpy(buf, v0, l0); n = l0;
	if (l0 && buf[n - 1] != '\n') buf[n++] = '\n';
	memcpy(buf + n, v1, l1); n += l1;
	if (n && buf[n - 1] != '\n') buf[n++] = '\n';
	/* split, sort, join */
	size_t cnt = 0;
	for (size_t i = 0; i < n; i++) if (buf[i] == '\n') cnt++;
	char **tok = malloc(sizeof(char *) * (cnt + 1));
	size_t t = 0, start = 0;
	for (size_t i = 0; i < n; i++) if (buf[i] == '\n') { buf[i] = 0; tok[t++] = buf + start; start = i + 1; }
	qsort(tok, t, sizeof(char *), cmpstr);
	uint8_t *o = malloc(n + 1);
	size_t m = 0;
	for (size_t i = 0; i < t; i++) { size_t l = strlen(tok[i]); memcpy(o + m, tok[i], l); m += l; o[m++] = '\n'; }
	free(tok); free(buf);
	*out = o; *lout = m;
}
