// Engine `corrupt`: stored bytes go bad between write and read.
//   C12: bit flips / bursts inside one block's checksum+payload; intact files verify.
//   C19: truncation at every crash point, trailer / index-header damage, random
//        bytes; the reader is given an exact-size heap copy so that any access
//        outside "the file's bytes" lands in an ASan red zone.
#include "common.h"
#include <zlib.h>
#include "tablelib.h"
#include "mergelib.h"
#include "../sim/seams.h"
#include "../sim/trap.h"
#include <algorithm>
#include <fcntl.h>
#include <unistd.h>

// ---------------------------------------------------------------- generator
static Plan gen_corrupt(const std::string &prop, const std::string &tier, uint64_t seed, uint64_t run)
{
	Plan p;
	p.engine = "corrupt"; p.prop = prop; p.tier = tier; p.seed = seed; p.run = run;
	Rng r(seed, run, 0xc0bb + (uint64_t)atoi(prop.c_str() + 1));
	bool thorough = tier == "thorough";
	gen_writer_cfg(p, r, false, false, true);
	p.seti("bsize", 1024); p.set("bsize_set", "1");
	if (prop == "C12") {
		p.set("producer", "real");
		// a third of the tables come from a pooled writer ('a file produced by the writer' - any writer configuration)
		if (r.chance(1, 3)) { p.seti("pool", r.below(4)); p.set("sched", sched_cfg_gen(r, 600)); }
		bool sweep = thorough && r.chance(1, 40);
		gen_sorted_adds(p, r, sweep ? 3 + r.below(20) : r.chance(1, 25) ? r.below(2) : 2 + r.below(r.chance(1, 3) ? 150 : 40), r.chance(1, 2) ? 100 : 300);
		if (sweep) { p.op("sweepbits"); return p; }
		p.op("intact");
		int nf = 4 + (int)r.below(10);
		for (int i = 0; i < nf; i++) {
			uint64_t k = r.below(10);
			std::string kind = k < 3 ? "bit1" : k < 5 ? "bit2" : k < 6 ? "bit3" : k < 9 ? "burst" : "crcset";
			// block selector (mod blocks+1; the last one is the index block), position seed, reach path
			p.op("flip", { kind, std::to_string(r.chance(1, 4) ? 9999 : r.below(64)), std::to_string(r.below(1u << 30)), std::to_string(r.below(8)) });
		}
		p.seti("tool_every", thorough ? 2 : 3);
	} else {
		// C19
		p.set("producer", r.chance(1, 2) ? "real" : "ref");
		p.seti("ref_version", 1 + r.below(2));
		p.seti("ref_seed", r.below(1u << 30));
		p.seti("ref_maxblk", 1 + r.below(20));
		gen_sorted_adds(p, r, r.chance(1, 5) ? r.below(3) : r.below(60), r.chance(1, 2) ? 0 : 100);
		int nm = 12 + (int)r.below(30);
		for (int i = 0; i < nm; i++) {
			uint64_t k = r.below(100);
			std::string v = std::to_string(r.below(2));	// verify_checksums
			if (k < 30) p.op("trunc", { std::to_string(r.below(12)), std::to_string((long long)r.below(41) - 20), v });
			else if (k < 36) p.op("trunc", { "99", std::to_string(r.below(1u << 20)), v });
			else if (k < 52) p.op("idxoff", { std::to_string(r.below(16)), std::to_string(r.below(1u << 30)), v });
			else if (k < 60) p.op("magic", { std::to_string(r.below(4)), std::to_string(r.below(1u << 30)), v });
			else if (k < 78) p.op("idxlen", { std::to_string(r.below(16)), std::to_string(r.below(1u << 30)), v });
			else if (k < 80) p.op("idxtail", { std::to_string(r.below(12)), std::to_string(r.below(1u << 30)), v });
			else if (k < 82) p.op("idxbody", { std::to_string(r.below(14)), std::to_string(r.below(1u << 30)), v });
			else if (k < 88) p.op("random", { std::to_string(r.below(2049)), std::to_string(r.below(1u << 30)), std::to_string(r.below(3)), v });
			else if (k < 91) p.op("tiny", { std::to_string(512 + r.below(40)), std::to_string(r.below(1u << 30)), std::to_string(r.below(12)), v });
			else if (k < 95) p.op("trailerflip", { std::to_string(r.below(1u << 30)), std::to_string(1 + r.below(4)), v });
			else if (k < 98) p.op("cutmiddle", { std::to_string(r.below(1u << 30)), v });
			else p.op("swapopen", { std::to_string(r.below(4)), std::to_string(r.below(1u << 30)), v });
		}
	}
	return p;
}

// ----------------------------------------------------------------- executor
namespace {
struct Base {
	Bytes file, pre;
	TableModel model = new_model();
	mfmt::DFile df;
	std::map<Bytes, int, bool (*)(const Bytes &, const Bytes &)> blk_of{ bytes_less };
	int comp = 0;
};

static void wr64le(Bytes &f, size_t at, uint64_t v) { for (int i = 0; i < 8; i++) f[at + i] = (char)(v >> (8 * i)); }
static void wr32le(Bytes &f, size_t at, uint32_t v) { for (int i = 0; i < 4; i++) f[at + i] = (char)(v >> (8 * i)); }

// open `bytes` as a table through the exact-bounds mapping; 0 NULL, 1 reader, 2 trapped assertion
static int open_damaged(const std::string &path, const Bytes &bytes, bool verify, bool by_fd, RunResult &res)
{
	write_file(path, bytes);
	mtbl_reader_options *ro = make_reader_options(verify, optvar_next() & 1);
	int outcome;
	sim_mmap_exact_heap(1);
	sim_mmap_track(1);	// a descriptor opened by mtbl_reader_init and orphaned by a trapped assertion is closed afterwards
	if (SIM_TRAP_TRY()) {
		mtbl_reader *rd;
		if (by_fd) { int fd = open(path.c_str(), O_RDONLY); rd = mtbl_reader_init_fd(fd, ro); close(fd); }
		else rd = mtbl_reader_init(path.c_str(), ro);
		SIM_TRAP_END();
		outcome = rd ? 1 : 0;
		if (rd) mtbl_reader_destroy(&rd);
	} else { outcome = 2; sim_mmap_release_leaked(); }
	sim_mmap_track(0);
	sim_mmap_exact_heap(0);
	mtbl_reader_options_destroy(&ro);
	static const char *names[] = { "open-returned-NULL", "open-returned-reader", "open-stopped-on-assert" };
	res.probes[names[outcome]]++;
	res.ev.u(outcome);
	return outcome;
}

// iterate with verify_checksums under the trap; returns entries delivered before the stop
static bool read_with_verify(const std::string &path, int how, const Bytes &target, std::vector<std::pair<Bytes, Bytes>> &got, bool &trapped, bool &opened,
			     const Bytes &later = Bytes(), const Bytes &earlier = Bytes())
{
	got.clear(); trapped = false; opened = false;
	mtbl_reader_options *ro = make_reader_options(true, optvar_next() & 1);
	// (volatile: assigned between setjmp and longjmp)
	mtbl_reader *volatile rd = nullptr;
	mtbl_iter *volatile it = nullptr;
	sim_mmap_track(1);
	if (SIM_TRAP_TRY()) {
		rd = mtbl_reader_init(path.c_str(), ro);
		if (rd) {
			opened = true;
			const mtbl_source *s = mtbl_reader_source(rd);
			const uint8_t *k, *v; size_t kl, vl;
			if (how == 0) {			// full iteration
				it = mtbl_source_iter(s);
				while (mtbl_iter_next(it, &k, &kl, &v, &vl) == mtbl_res_success) got.push_back({ Bytes((const char *)k, kl), Bytes((const char *)v, vl) });
			} else if (how == 1) {		// get
				it = mtbl_source_get(s, (const uint8_t *)target.data(), target.size());
				while (mtbl_iter_next(it, &k, &kl, &v, &vl) == mtbl_res_success) got.push_back({ Bytes((const char *)k, kl), Bytes((const char *)v, vl) });
			} else if (how == 2) {		// iterate a little from the start, then seek into the block
				it = mtbl_source_iter(s);
				if (mtbl_iter_next(it, &k, &kl, &v, &vl) == mtbl_res_success) got.push_back({ Bytes((const char *)k, kl), Bytes((const char *)v, vl) });
				if (mtbl_iter_seek(it, (const uint8_t *)target.data(), target.size()) == mtbl_res_success)
					for (int i = 0; i < 3 && mtbl_iter_next(it, &k, &kl, &v, &vl) == mtbl_res_success; i++) got.push_back({ Bytes((const char *)k, kl), Bytes((const char *)v, vl) });
			} else if (how == 3) {		// prefix / range lookup starting in the block
				it = mtbl_source_get_range(s, (const uint8_t *)target.data(), target.size(), (const uint8_t *)"\xff\xff\xff\xff", 4);
				for (int i = 0; i < 3 && mtbl_iter_next(it, &k, &kl, &v, &vl) == mtbl_res_success; i++) got.push_back({ Bytes((const char *)k, kl), Bytes((const char *)v, vl) });
			} else if (how == 4 || how == 5) {
				// one iterator that first reads a block *behind* the damaged one (jumping over it) and is then taken back
				// into it: whatever the iterator or the reader remembers about blocks it has been past, this block was
				// never verified.  4: unbounded iterator; 5: range iterator that starts in the block before.
				it = how == 4 ? mtbl_source_iter(s) : mtbl_source_get_range(s, (const uint8_t *)earlier.data(), earlier.size(), (const uint8_t *)"\xff\xff\xff\xff", 4);
				if (mtbl_iter_seek(it, (const uint8_t *)later.data(), later.size()) == mtbl_res_success &&
				    mtbl_iter_next(it, &k, &kl, &v, &vl) == mtbl_res_success) got.push_back({ Bytes((const char *)k, kl), Bytes((const char *)v, vl) });
				if (mtbl_iter_seek(it, (const uint8_t *)target.data(), target.size()) == mtbl_res_success)
					for (int i = 0; i < 3 && mtbl_iter_next(it, &k, &kl, &v, &vl) == mtbl_res_success; i++) got.push_back({ Bytes((const char *)k, kl), Bytes((const char *)v, vl) });
			} else {
				// two iterators of one reader, one after the other: the first reads the block behind the damaged one
				// (6: by get, 7: by seek on a full iterator) and is closed, the second goes for the damaged block
				it = how == 6 ? mtbl_source_get(s, (const uint8_t *)later.data(), later.size()) : mtbl_source_iter(s);
				if (how == 7) (void)!mtbl_iter_seek(it, (const uint8_t *)later.data(), later.size());
				if (mtbl_iter_next(it, &k, &kl, &v, &vl) == mtbl_res_success) got.push_back({ Bytes((const char *)k, kl), Bytes((const char *)v, vl) });
				{ mtbl_iter *i2 = it; mtbl_iter_destroy(&i2); it = nullptr; }
				it = how == 6 ? mtbl_source_get(s, (const uint8_t *)target.data(), target.size()) : mtbl_source_iter(s);
				if (how == 7) (void)!mtbl_iter_seek(it, (const uint8_t *)target.data(), target.size());
				for (int i = 0; i < 3 && mtbl_iter_next(it, &k, &kl, &v, &vl) == mtbl_res_success; i++) got.push_back({ Bytes((const char *)k, kl), Bytes((const char *)v, vl) });
			}
			{ mtbl_iter *i2 = it; mtbl_iter_destroy(&i2); it = nullptr; }
			{ mtbl_reader *r2 = rd; mtbl_reader_destroy(&r2); rd = nullptr; }
		}
		SIM_TRAP_END();
	} else {
		// the process "stopped" on an assertion.  What the harness still holds is released (the assertion fires before
		// the library changes any of its structures); a reader that was still being built is unreachable, its mapping
		// is released through the seam.  Exhaustive sweeps go through here tens of thousands of times per process.
		trapped = true;
		if (it) { mtbl_iter *i2 = it; mtbl_iter_destroy(&i2); }
		if (rd) { mtbl_reader *r2 = rd; mtbl_reader_destroy(&r2); }
		sim_mmap_release_leaked();
	}
	sim_mmap_track(0);
	mtbl_reader_options_destroy(&ro);
	return true;
}

static void flip_bits(Bytes &f, uint64_t lo, uint64_t hi, const std::string &kind, Rng &r, std::string &desc)
{
	uint64_t nbits = (hi - lo) * 8;
	auto flip = [&](uint64_t bit) { f[lo + bit / 8] ^= (char)(1u << (bit % 8)); };
	if (kind == "burst") {
		// a burst lies inside the checksum field or inside the stored bytes, never across the two
		// (on disk the checksum precedes the payload; a straddling pattern is not a burst of the CRC codeword)
		uint64_t rlo = 0, rbits = nbits;
		if (r.chance(1, 8)) rbits = 32; else { rlo = 32; rbits = nbits - 32; }
		uint64_t len = 2 + r.below(31);	// 2..32 bits, first and last flipped
		if (len > rbits) len = rbits;
		uint64_t start = rlo + r.below(rbits - len + 1);
		flip(start); if (len > 1) flip(start + len - 1);
		for (uint64_t i = 1; i + 1 < len; i++) if (r.chance(1, 2)) flip(start + i);
		desc = "burst of " + std::to_string(len) + " bits at bit " + std::to_string(start);
	} else {
		int n = kind == "bit1" ? 1 : kind == "bit2" ? 2 : 3;
		std::vector<uint64_t> used;
		for (int i = 0; i < n; i++) {
			uint64_t b;
			do b = r.below(nbits); while (std::find(used.begin(), used.end(), b) != used.end() && used.size() < nbits);
			used.push_back(b); flip(b);
		}
		desc = std::to_string(n) + " bit(s) flipped";
	}
}

static void check_damaged(const Base &b, RunResult &res, const std::string &path, const Bytes &dam, int blk, int how, bool run_tool, const std::string &desc)
{
	int nb = (int)b.df.data.size();
	bool index_blk = blk == nb;
	write_file(path, dam);
	std::string what = desc + " in " + (index_blk ? std::string("the index block") : "data block " + std::to_string(blk) + " of " + std::to_string(nb));
	if (run_tool) {
		Bytes out, err;
		int st = run_cmd({ tool_path("mtbl_verify"), path }, &out, &err);
		res.probes["mtbl_verify-on-damaged"]++;
		if (st == 0 || out.find(": OK") != Bytes::npos)
			res.fail("MODEL", index_blk ? "VERIFY-TOOL-accepts-damaged-index" : "VERIFY-TOOL-accepts-damaged-block", "mtbl_verify reports OK (exit " + std::to_string(st) + ") for a file with " + what);
	}
	Bytes target, later, earlier;
	if (!index_blk && !b.df.data[blk].entries.empty()) {
		auto &e = b.df.data[blk].entries;
		target = how == 1 || how == 6 ? e[e.size() / 2].key : e.front().key;
		if (how >= 4) {
			// the histories that come back to the block need a block behind it (and 5 one in front of it)
			if (blk + 1 < nb && !b.df.data[blk + 1].entries.empty()) later = b.df.data[blk + 1].entries.front().key; else how = 2;
			if (how == 5) { if (blk > 0 && !b.df.data[blk - 1].entries.empty()) earlier = b.df.data[blk - 1].entries.back().key; else how = 4; }
			if (how >= 4) res.probes["damaged-block-reached-after-a-block-behind-it"]++;
		}
	} else how = 0;
	std::vector<std::pair<Bytes, Bytes>> got; bool trapped, opened;
	read_with_verify(path, how, target, got, trapped, opened, later, earlier);
	res.ev.u(trapped); res.ev.u(got.size());
	if (trapped) res.probes[index_blk ? "stopped-on-damaged-index" : "stopped-on-damaged-block"]++;
	if (index_blk) {
		// the property lets the process stop at any moment before an entry is handed out: at open (what today's reader
		// does) or when the index is first used; what it rules out is a reader that works from the damaged index
		if (opened && trapped) res.probes["damaged-index-stopped-after-open"]++;
		if (opened && !trapped) res.fail("MODEL", "READER-accepts-damaged-index", "reader with verify_checksums opened a file with " + what + " and iterated it to the end (" + std::to_string(got.size()) + " entries)");
		return;
	}
	for (auto &kv : got) {
		auto f = b.model.find(kv.first);
		auto bo = b.blk_of.find(kv.first);
		if (f == b.model.end() || f->second != kv.second) {
			res.fail("MODEL", "READER-returned-damaged-entry", "reader with verify_checksums returned an entry that was never written (key " + short_repr(kv.first) + ") from a file with " + what);
			return;
		}
		if (bo != b.blk_of.end() && bo->second == blk) {
			static const char *hows[] = { "iteration", "get", "seek", "range", "seek-back", "range-seek-back", "second-get", "second-iterator" };
			res.fail("MODEL", std::string("READER-accepts-damaged-block-") + hows[how], "reader with verify_checksums returned key " + short_repr(kv.first) + " decoded from the damaged block (" + what + ") via " + hows[how]);
			return;
		}
	}
	if (!trapped && how == 0) res.fail("MODEL", "READER-iterated-past-damage", "full iteration with verify_checksums completed over a file with " + what);
}
} // namespace

static RunResult exec_corrupt(const Plan &p)
{
	RunResult res;
	Base b;
	std::string path = scratch_dir() + "/c.mtbl", dpath = scratch_dir() + "/d.mtbl";
	std::vector<Op> adds;
	for (auto &o : p.ops) if (o.name == "add") adds.push_back(o);
	b.comp = (int)p.geti("comp", 0);
	bool ref = p.gets("producer", "real") == "ref";
	if (!ref) {
		if (!tablelib_write(p, res, path, b.model, adds, false, &b.pre)) return res;
		if (p.geti("pool", -1) >= 0) res.probes["table-from-pooled-writer"]++;
		b.file = read_file(path);
	} else {
		mfmt::Entries ents;
		Bytes last; bool any = false;
		for (auto &o : adds) { Bytes k = o.argb(0), v = o.argb(1); if (any && mfmt::cmp(k, last) <= 0) continue; b.model[k] = v; ents.push_back({ k, v }); last = k; any = true; }
		size_t prefix = (size_t)p.geti("prefix", 0);
		if (prefix) { prng g; prng_seed(&g, (uint64_t)p.geti("prefseed", 0), 0x9e, 1); for (size_t i = 0; i < prefix; i++) b.pre.push_back((char)(prng_next(&g) >> 40)); }
		mfmt::EncOpts eo;
		eo.version = (int)p.geti("ref_version", 2); eo.algo = b.comp; eo.seed = (uint64_t)p.geti("ref_seed", 1);
		eo.foreign_prefix = b.pre; eo.max_block_entries = (int)p.geti("ref_maxblk", 8);
		eo.block_size_field = (uint64_t)p.geti("ref_seed", 1) % 3 == 0 ? 128 : 8192;
		b.file = mfmt::encode(ents, eo);
		res.probes[eo.version == 1 ? "base-v1" : "base-v2"]++;
	}
	mfmt::DecodeOpts dopt; dopt.start = b.pre.size(); dopt.writer_rules = false;
	mfmt::decode(b.file, dopt, b.df);
	if (b.df.fatal) {
		// the independent decoder cannot locate the blocks of the base file (a broken writer, not a harness problem):
		// the intact-file checks still run, fault placement is impossible and the run is counted as unjudged
		res.unjudged["base-file-undecodable"]++;
		for (auto &o : p.ops) if (o.name == "intact") {
			Bytes out, err;
			int st = run_cmd({ tool_path("mtbl_verify"), path }, &out, &err);
			if (st != 0) res.fail("MODEL", "VERIFY-TOOL-rejects-intact", "mtbl_verify does not report OK (exit " + std::to_string(st) + ") for a file straight from the writer");
		}
		return res;
	}
	if (!b.df.errors.empty()) res.probes["base-file-has-format-errors"]++;
	for (size_t i = 0; i < b.df.data.size(); i++) for (auto &e : b.df.data[i].entries) b.blk_of[e.key] = (int)i;
	int nb = (int)b.df.data.size();
	res.ev.u(b.file.size()); res.ev.u(nb);
	size_t size = b.file.size();
	uint64_t ioff = b.df.index_off;
	int tool_every = (int)p.geti("tool_every", 4);
	size_t nflip = 0;
	bool later_block = false;

	size_t opi = 0;
	for (auto &o : p.ops) {
		opi++;
		if (res.viol) break;
		Rng r(p.seed ^ 0x5eed, p.run, opi * 7919 + (uint64_t)o.argi(o.name == "flip" ? 2 : 1));
		if (o.name == "add") continue;
		// ------------------------------------------------------------ C12
		if (o.name == "intact") {
			Bytes out, err;
			int st = run_cmd({ tool_path("mtbl_verify"), path }, &out, &err);
			res.probes["mtbl_verify-on-intact"]++;
			if (st != 0) res.fail("MODEL", "VERIFY-TOOL-rejects-intact", "mtbl_verify does not report OK (exit " + std::to_string(st) + ") for a file straight from the writer: " + err.substr(0, 200));
			std::vector<std::pair<Bytes, Bytes>> got; bool trapped, opened;
			read_with_verify(path, 0, Bytes(), got, trapped, opened);
			if (trapped) res.fail("MODEL", "READER-rejects-intact", std::string("reader with verify_checksums stopped on an intact file: ") + sim_trap_what);
			else if (got.size() != b.model.size() || !std::equal(got.begin(), got.end(), b.model.begin(), [](const std::pair<Bytes, Bytes> &a, const std::pair<const Bytes, Bytes> &m) { return a.first == m.first && a.second == m.second; }))
				res.fail("MODEL", "READER-intact-content", "reader with verify_checksums did not return the written entries of an intact file");
			for (int i = 0; i < nb && !res.viol; i++) {
				auto &e = b.df.data[i].entries;
				read_with_verify(path, 1, e[e.size() / 2].key, got, trapped, opened);
				if (trapped || got.size() != 1) res.fail("MODEL", "READER-intact-get", "get() with verify_checksums failed on an intact file, block " + std::to_string(i));
			}
		} else if (o.name == "flip") {
			int blk = (int)(o.argi(1) % (nb + 1));
			if (o.argi(1) == 9999) blk = nb;
			const mfmt::DBlock &db = blk == nb ? b.df.index : b.df.data[blk];
			uint64_t lo = db.off + db.len_len, hi = db.payload_off + db.stored_len;	// checksum field + stored bytes
			Bytes dam = b.file;
			std::string desc;
			if (o.arg(0) == "crcset") {
				// the 4-byte checksum field replaced by a value with a meaning of its own: every such change is a burst of
				// at most 32 bits inside the field.  (A random burst produces any one of them with probability 2^-32.)
				uint32_t old = 0; for (int i = 0; i < 4; i++) old |= (uint32_t)(unsigned char)dam[lo + i] << (8 * i);
				uint32_t other = 0;
				{ const mfmt::DBlock &ob = b.df.data.empty() ? b.df.index : b.df.data[(size_t)(blk + 1) % b.df.data.size()]; other = ob.crc_stored; }
				static const char *nm[] = { "all zero", "all ones", "byte-swapped", "plus one", "the checksum of another block", "its complement", "its low 16 bits only", "zlib's CRC-32 of the stored bytes" };
				int sel = (int)(o.argi(2) % 8);
				uint32_t nv = sel == 0 ? 0 : sel == 1 ? 0xffffffffu : sel == 2 ? __builtin_bswap32(old) : sel == 3 ? old + 1 : sel == 4 ? other : sel == 5 ? ~old : sel == 6 ? (old & 0xffffu)
					: (uint32_t)crc32(0, (const Bytef *)dam.data() + db.payload_off, (uInt)db.stored_len);
				if (nv == old) nv = old ^ 0x80000001u;
				for (int i = 0; i < 4; i++) dam[lo + i] = (char)(nv >> (8 * i));
				desc = std::string("checksum field set to ") + nm[sel];
				res.probes["checksum-field-replaced"]++;
			} else flip_bits(dam, lo, hi, o.arg(0), r, desc);
			res.faults["flip-" + o.arg(0)]++;
			if (blk > 0 && blk < nb) later_block = true;
			if (blk == nb) res.probes["fault-in-index-block"]++;
			if (blk == nb - 1 && nb > 1) res.probes["fault-in-last-data-block"]++;
			check_damaged(b, res, dpath, dam, blk, (int)(o.argi(3) & 7), (nflip++ % (size_t)tool_every) == 0, desc);
		} else if (o.name == "sweepbits") {
			// every single-bit flip of every block (checksum + stored bytes)
			size_t cases = 0;
			for (int blk = 0; blk <= nb && !res.viol; blk++) {
				const mfmt::DBlock &db = blk == nb ? b.df.index : b.df.data[blk];
				uint64_t lo = db.off + db.len_len, hi = db.payload_off + db.stored_len;
				// exhaustive for blocks up to 20000 bits; larger ones (a 200 KB value makes 1.6 million cases): every bit of the
				// first and last 4096 and an even sample of 8192 in between; at most 120000 cases per plan
				uint64_t nbits = (hi - lo) * 8;
				uint64_t stride = nbits <= 20000 ? 1 : (nbits - 8192) / 8192 + 1;
				if (stride > 1) res.probes["sweep-sampled-large-block"]++;
				for (uint64_t bit = 0; bit < nbits && !res.viol; bit++) {
					if (stride > 1 && bit >= 4096 && bit + 4096 < nbits && (bit - 4096) % stride != 0) continue;
					if (cases >= 120000) { res.probes["sweep-stopped-at-case-budget"]++; break; }
					Bytes dam = b.file;
					dam[lo + bit / 8] ^= (char)(1u << (bit % 8));
					check_damaged(b, res, dpath, dam, blk, (int)(bit % 3 == 0 ? 1 : 0), false, "bit " + std::to_string(bit) + " flipped");
					cases++;
				}
			}
			res.probes["sweep-single-bit-cases"] += cases;
			res.faults["flip-bit1"] += cases;
			later_block = nb > 1;
		}
		// ------------------------------------------------------------ C19
		else if (o.name == "trunc") {
			// structural boundaries: 0, start, end of each of the first blocks, index offset, index payload, trailer start, size
			std::vector<uint64_t> bnd{ 0, b.pre.size(), ioff, b.df.index.payload_off, size - 512, size, 512, size > 512 ? size - 508 : 0, 511, 513, size - 1, size - 4 };
			uint64_t L;
			if (o.argi(0) == 99) L = size ? (uint64_t)o.argi(1) % (size + 1) : 0;
			else { long long base = (long long)bnd[(size_t)o.argi(0) % bnd.size()] + o.argi(1); L = base < 0 ? 0 : (uint64_t)base; if (L > size) L = size; }
			res.faults["truncate"]++;
			open_damaged(dpath, b.file.substr(0, L), o.argi(2), opi & 1, res);
		} else if (o.name == "idxoff") {
			static const uint64_t abs[] = { 0, 1, 1ull << 63, ~0ull, (1ull << 63) - 1, ~0ull - 511, ~0ull - 524, 1ull << 32 };
			uint64_t sel = (uint64_t)o.argi(0), v;
			if (sel < 8) v = abs[sel];
			else if (sel < 13) v = size - 525 + (uint64_t)o.argi(1) % 30;	// around size-525 .. size
			else v = sel == 13 ? (uint64_t)o.argi(1) % (size + 1) : sel == 14 ? ioff + 1 + (uint64_t)o.argi(1) % 8 : ioff - 1 - (uint64_t)o.argi(1) % 8;
			Bytes dam = b.file;
			wr64le(dam, size - 512, v);
			res.faults["trailer-index-offset"]++;
			open_damaged(dpath, dam, o.argi(2), opi & 1, res);
		} else if (o.name == "magic") {
			Bytes dam = b.file;
			uint64_t sel = (uint64_t)o.argi(0);
			uint32_t m = sel == 0 ? 0x77846676u : sel == 1 ? 0x4D54424Cu : sel == 2 ? 0 : (uint32_t)o.argi(1) * 2654435761u;
			wr32le(dam, size - 4, m);
			res.faults["trailer-magic"]++;
			if ((m == 0x77846676u) != (b.df.version == 1) && (m == 0x77846676u || m == 0x4D54424Cu)) res.probes["version-confusion"]++;
			open_damaged(dpath, dam, o.argi(2), opi & 1, res);
		} else if (o.name == "idxlen") {
			Bytes dam = b.file;
			uint64_t truelen = b.df.index.stored_len, remaining = size - 512 - ioff;
			static const int64_t rel[] = { 0, 1, -1 };
			uint64_t sel = (uint64_t)o.argi(0), v;
			switch (sel) {
			case 0: v = 0; break; case 1: v = 1; break; case 2: v = truelen + 1; break; case 3: v = truelen - 1; break;
			case 4: v = remaining - 1; break; case 5: v = remaining; break; case 6: v = remaining + 1; break;
			case 7: v = 1ull << 31; break; case 8: v = 0xFFFFFFFFull; break; case 9: v = ~0ull; break; case 10: v = 1ull << 62; break;
			case 11: v = remaining - 5 + rel[o.argi(1) % 3]; break;
			case 12: v = size + (uint64_t)o.argi(1) % 4096; break;
			case 14: v = 2 + (uint64_t)o.argi(1) % 6; break;	// 2..7: shorter than a restart array with one slot
			case 15: v = truelen - 4; break;
			default: v = (uint64_t)o.argi(1) * 11400714819323198485ull >> (o.argi(1) % 60); break;
			}
			if (b.df.version == 1) wr32le(dam, ioff, (uint32_t)v);
			else {
				uint8_t t[12]; size_t n = mfmt::put_varint(t, v);
				if (sel == 9 && o.argi(1) % 2) { memset(t, 0xff, 10); n = 10; }	// over-long varint (never terminates within 10 bytes)
				for (size_t i = 0; i < n && ioff + i < size; i++) dam[ioff + i] = (char)t[i];
			}
			res.faults["index-length-prefix"]++;
			open_damaged(dpath, dam, o.argi(2), opi & 1, res);
		} else if (o.name == "idxtail") {
			// the restart count (last 4 bytes of the index block's contents) and the slot before it
			Bytes dam = b.file;
			uint64_t truelen = b.df.index.stored_len, end = b.df.index.payload_off + truelen;
			static const uint32_t cnt[] = { 0, 1, 2, 0x7fffffffu, 0x80000000u, 0xffffffffu, 0x3fffffffu, 0x40000000u };
			uint64_t sel = (uint64_t)o.argi(0);
			uint32_t c = sel < 8 ? cnt[sel] : sel == 8 ? (uint32_t)(truelen / 4) : sel == 9 ? (uint32_t)(truelen / 4 - 1) : sel == 10 ? (uint32_t)(truelen / 4 + 1) : (uint32_t)o.argi(1);
			if (end >= 4 && end <= size) wr32le(dam, end - 4, c);
			if (sel % 3 == 0 && end >= 8) wr32le(dam, end - 8, (uint32_t)o.argi(1) * 2654435761u);
			res.faults["index-restart-count"]++;
			open_damaged(dpath, dam, o.argi(2), opi & 1, res);
		} else if (o.name == "idxbody") {
			// the index block's *contents* name places outside the file, or are garbage, while its frame (length prefix,
			// CRC-32C, restart array) is valid: an open that looks inside the index must bound what it finds there
			uint64_t sel = (uint64_t)o.argi(0), x = (uint64_t)o.argi(1);
			std::vector<std::pair<Bytes, Bytes>> ie;
			for (auto &e : b.df.index_entries) { uint8_t t[12]; size_t n = mfmt::put_varint(t, e.second); ie.push_back({ e.first, Bytes((const char *)t, n) }); }
			if (ie.empty()) ie.push_back({ Bytes("k"), Bytes(1, '\0') });
			static const uint64_t far[] = { ~0ull, 1ull << 63, 1ull << 62, 1ull << 45, 1ull << 32, (1ull << 32) - 1, 1ull << 31 };
			size_t victim = sel % 3 == 0 ? ie.size() - 1 : sel % 3 == 1 ? 0 : (size_t)(x % ie.size());
			uint64_t v = sel < 7 ? far[sel] : sel == 7 ? size : sel == 8 ? size - 1 : sel == 9 ? ioff : sel == 10 ? size - 512 : size + x % 8192;
			{ uint8_t t[12]; size_t n = mfmt::put_varint(t, v); ie[victim].second = Bytes((const char *)t, n); }
			if (sel == 12) ie[victim].second = Bytes(10, '\xff');	// a varint that never ends
			if (sel == 13) ie[victim].second = Bytes();		// no offset at all
			Bytes blk; std::vector<uint32_t> rs;
			for (size_t i = 0; i < ie.size(); i++) {
				rs.push_back((uint32_t)blk.size());	// every entry a restart point, nothing shared
				uint8_t t[12];
				blk.append((const char *)t, mfmt::put_varint(t, 0));
				blk.append((const char *)t, mfmt::put_varint(t, ie[i].first.size()));
				blk.append((const char *)t, mfmt::put_varint(t, ie[i].second.size()));
				blk += ie[i].first; blk += ie[i].second;
			}
			for (uint32_t q : rs) { blk.append(4, '\0'); wr32le(blk, blk.size() - 4, q); }
			blk.append(4, '\0'); wr32le(blk, blk.size() - 4, (uint32_t)rs.size());
			if (sel % 5 == 4) for (int i = 0; i < 3; i++) { size_t at = (size_t)((x >> (i * 7)) % (blk.size() - 4 * rs.size() - 4)); blk[at] ^= (char)(1u << (x % 8)); }	// and garbage among the entries
			Bytes frame;
			if (b.df.version == 1) { frame.append(4, '\0'); wr32le(frame, 0, (uint32_t)blk.size()); }
			else { uint8_t t[12]; frame.append((const char *)t, mfmt::put_varint(t, blk.size())); }
			frame.append(4, '\0'); wr32le(frame, frame.size() - 4, mfmt::crc32c((const uint8_t *)blk.data(), blk.size()));
			Bytes dam = b.file.substr(0, ioff) + frame + blk + b.file.substr(size - 512);
			res.faults["index-contents-point-outside-the-file"]++;
			open_damaged(dpath, dam, o.argi(2), opi & 1, res);
		} else if (o.name == "random") {
			size_t n = (size_t)o.argi(0);
			Bytes dam;
			for (size_t i = 0; i < n; i++) dam.push_back((char)r.below(256));
			int style = (int)o.argi(2);
			if (style >= 1 && n >= 512) {	// random body, plausible trailer
				wr32le(dam, n - 4, r.chance(1, 2) ? 0x4D54424Cu : 0x77846676u);
				wr64le(dam, n - 512, style == 2 ? r.below(n) : r.below(n > 525 ? n - 525 : 1));
			}
			res.faults["random-file"]++;
			open_damaged(dpath, dam, o.argi(3), opi & 1, res);
		} else if (o.name == "tiny") {
			// a bare trailer (or a trailer preceded by fewer bytes than a minimal index block) with a valid magic
			size_t n = (size_t)o.argi(0);
			if (n < 512) n = 512;
			Bytes dam(n, '\0');
			for (size_t i = 0; i + 512 < n; i++) dam[i] = (char)r.below(256);
			for (size_t i = 0; i < 72; i++) dam[n - 512 + i] = (char)r.below(256);
			static const uint64_t offs[] = { 0, 1, 12, 13, 16, 1ull << 47, 1ull << 62, ~0ull, ~0ull - 511, ~0ull - 524, 511, 512 };
			wr64le(dam, n - 512, offs[(size_t)o.argi(2) % 12]);
			wr32le(dam, n - 4, r.chance(1, 2) ? 0x4D54424Cu : 0x77846676u);
			res.faults["tiny-file"]++;
			open_damaged(dpath, dam, o.argi(3), opi & 1, res);
		} else if (o.name == "trailerflip") {
			Bytes dam = b.file;
			int n = (int)o.argi(1);
			for (int i = 0; i < n; i++) { size_t bit = r.below(72 * 8); dam[size - 512 + bit / 8] ^= (char)(1u << (bit % 8)); }
			res.faults["trailer-bitflip"]++;
			open_damaged(dpath, dam, o.argi(2), opi & 1, res);
		} else if (o.name == "swapopen") {
			// another process publishes a different (shorter or longer) table under the name while mtbl_reader_init(path) is
			// under way: whatever the reader learnt about the path before its open() describes a file it does not get.
			// Both files are well-formed; the bytes it may touch are those of the file it actually opened.
			uint64_t sel = (uint64_t)o.argi(0);
			mfmt::EncOpts eo; eo.seed = (uint64_t)o.argi(1); eo.version = b.df.version;
			mfmt::Entries small;
			if (sel >= 1) small.push_back({ "k", "v" });
			if (sel == 3) for (int i = 0; i < 400; i++) { char kb[16]; snprintf(kb, sizeof kb, "l%05d", i); small.push_back({ kb, Bytes(40, 'x') }); }
			std::string other = dpath + ".new";
			write_file(other, sel == 2 ? b.file.substr(0, size > 512 ? size - 100 : size) : mfmt::encode(small, eo));	// 2: not even a table
			write_file(dpath, b.file);
			mtbl_reader_options *ro = make_reader_options(o.argi(2), optvar_next() & 1);
			sim_mmap_exact_heap(1); sim_mmap_track(1);
			sim_open_swap_with(other.c_str());
			int outcome;
			if (SIM_TRAP_TRY()) {
				mtbl_reader *rd = mtbl_reader_init(dpath.c_str(), ro);
				SIM_TRAP_END();
				outcome = rd ? 1 : 0;
				if (rd) mtbl_reader_destroy(&rd);
			} else { outcome = 2; sim_mmap_release_leaked(); }
			sim_open_swap_with(nullptr);
			sim_mmap_track(0); sim_mmap_exact_heap(0);
			mtbl_reader_options_destroy(&ro);
			unlink(other.c_str());
			res.faults["file-replaced-between-path-lookup-and-open"]++;
			res.ev.u(outcome);
		} else if (o.name == "cutmiddle") {
			// bytes lost from the middle: the trailer survives, everything before it shifts
			uint64_t at = r.below(size - 511), len = 1 + r.below(64);
			if (at + len > size - 512) len = size - 512 - at;
			Bytes dam = b.file.substr(0, at) + b.file.substr(at + len);
			res.faults["bytes-lost-in-the-middle"]++;
			open_damaged(dpath, dam, o.argi(1), opi & 1, res);
		}
	}
	if (p.prop == "C12") res.nontrivial = later_block;
	else res.nontrivial = res.faults.size() >= 3;
	return res;
}

extern const Engine engine_corrupt = { "corrupt", gen_corrupt, exec_corrupt };
