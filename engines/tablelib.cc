#include "tablelib.h"
#include "../sim/simsched.h"
#include "../sim/seams.h"
#include <fcntl.h>
#include <unistd.h>

static Bytes variant(Bytes q, int m)
{
	switch (m) {
	case 1: if (!q.empty()) q.pop_back(); break;
	case 2: q.push_back('\0'); break;
	case 3: q.push_back((char)0xff); break;
	case 4: if (!q.empty() && (unsigned char)q.back() > 0) { q.back() = (char)((unsigned char)q.back() - 1); q.push_back((char)0xff); } break;
	case 5: if (!q.empty() && (unsigned char)q.back() < 0xff) q.back() = (char)((unsigned char)q.back() + 1); break;
	case 6: q = q.substr(0, (q.size() + 1) / 2); break;
	case 7: q.push_back('a'); break;
	}
	return q;
}

Client::Client(RunResult &r, const TableModel &m, const mtbl_source *s, const mfmt::DFile *d, const std::string &t)
	: res(r), model(m), src(s), df(d), tag(t)
{
	for (auto &kv : model) keys.push_back(kv.first);
	if (df)
		for (size_t b = 0; b < df->data.size(); b++)
			for (auto &e : df->data[b].entries) blk_of[e.key] = (int)b;
}

Bytes Client::resolve(const std::string &tok, const ClientSlot *s)
{
	if (tok.empty() || tok[0] != '@') return spec_bytes(tok);
	size_t colon = tok.find(':');
	int m = colon == std::string::npos ? 0 : atoi(tok.c_str() + colon + 1);
	std::string base = tok.substr(0, colon);
	Bytes k;
	size_t nblk = df ? df->data.size() : 0;
	auto num = [&](size_t skip) { return (size_t)strtoull(base.c_str() + skip, nullptr, 10); };
	int cb = -1;
	if (s) { auto f = blk_of.find(s->cur); if (f != blk_of.end()) cb = f->second; else if (s->last_blk >= 0) cb = s->last_blk; }
	if (base == "@end") { k = keys.empty() ? Bytes("z") : keys.back(); k.push_back((char)0xff); return k; }
	if (base == "@cur") k = s ? s->cur : Bytes();
	else if (base == "@cf" || base == "@cl" || base == "@pf" || base == "@nf") {
		if (cb < 0 || nblk == 0) k = s ? s->cur : Bytes();
		else {
			int b = cb;
			if (base == "@pf") b = cb > 0 ? cb - 1 : 0;
			if (base == "@nf") b = cb + 1 < (int)nblk ? cb + 1 : cb;
			auto &e = df->data[b].entries;
			k = e.empty() ? Bytes() : (base == "@cl" ? e.back().key : e.front().key);
		}
	} else if (base.compare(0, 3, "@rs") == 0) {
		if (cb < 0 || nblk == 0) k = s ? s->cur : Bytes();
		else {
			std::vector<const Bytes *> rs;
			for (auto &e : df->data[cb].entries) if (e.restart) rs.push_back(&e.key);
			k = rs.empty() ? Bytes() : *rs[num(3) % rs.size()];
		}
	} else if (base.compare(0, 2, "@k") == 0) k = keys.empty() ? Bytes() : keys[num(2) % keys.size()];
	else if (base.compare(0, 2, "@s") == 0) {
		if (df && !df->index_entries.empty()) k = df->index_entries[num(2) % df->index_entries.size()].first;
		else k = keys.empty() ? Bytes() : keys[num(2) % keys.size()];
	} else if (base.compare(0, 2, "@f") == 0) {
		if (nblk) { auto &e = df->data[num(2) % nblk].entries; if (!e.empty()) k = e.front().key; }
		else k = keys.empty() ? Bytes() : keys[num(2) % keys.size()];
	} else if (base.compare(0, 2, "@l") == 0) {
		if (nblk) { auto &e = df->data[num(2) % nblk].entries; if (!e.empty()) k = e.back().key; }
		else k = keys.empty() ? Bytes() : keys[num(2) % keys.size()];
	}
	return variant(k, m);
}

static bool in_bound(const ClientSlot &s, const Bytes &key)
{
	switch (s.kind) {
	case 1: return key == s.k0;
	case 2: return has_prefix(key, s.k0);
	case 3: return mfmt::cmp(key, s.k1) <= 0;
	default: return true;
	}
}

static mtbl_iter *open_iter(const mtbl_source *src, int kind, const Bytes &k0, const Bytes &k1)
{
	TmpKey a(k0), b(k1);	// gone when the call returns
	switch (kind) {
	case 1: return mtbl_source_get(src, a.p, a.n);
	case 2: return mtbl_source_get_prefix(src, a.p, a.n);
	case 3: return mtbl_source_get_range(src, a.p, a.n, b.p, b.n);
	default: return mtbl_source_iter(src);
	}
}

// false when the handed-out buffers were modified behind the caller's back
static bool buffers_intact(ClientSlot &s)
{
	if (!s.have) return true;
	s.have = false;
	if (s.kl != s.kcopy.size() || s.vl != s.vcopy.size()) return false;
	if (s.kl && memcmp(s.kp, s.kcopy.data(), s.kl)) return false;
	if (s.vl && memcmp(s.vp, s.vcopy.data(), s.vl)) return false;
	return true;
}

void Client::slot_close(ClientSlot &s, const char *opname)
{
	if (!s.open) return;
	if (!buffers_intact(s)) res.fail("MODEL", tag + "BUFFER-" + std::string(opname), "buffers handed out by the previous next() changed before the next call on that iterator");
	mtbl_iter_destroy(&s.it);
	s = ClientSlot();
}

void Client::close_all() { for (auto &s : slot) slot_close(s, "final-close"); }

void Client::do_next(int si, size_t opi)
{
	ClientSlot &s = slot[si];
	if (!buffers_intact(s)) res.fail("MODEL", tag + "BUFFER-next", "op " + std::to_string(opi) + ": buffers changed before next()");
	const uint8_t *k, *v; size_t kl, vl;
	mtbl_res r = mtbl_iter_next(s.it, &k, &kl, &v, &vl);
	bool expect_ok = !s.failed && s.pos != model.end() && in_bound(s, s.pos->first);
	res.ev.u(r == mtbl_res_success);
	if (!expect_ok) {
		s.failed = true;
		if (r == mtbl_res_success)
			res.fail("MODEL", tag + "NEXT-extra", "op " + std::to_string(opi) + ": next() on slot " + std::to_string(si) + " returned key " + short_repr(Bytes((const char *)k, kl)) + " where the model has nothing (sticky failure / end of range)");
		return;
	}
	if (r != mtbl_res_success) {
		res.fail("MODEL", tag + "NEXT-missing", "op " + std::to_string(opi) + ": next() on slot " + std::to_string(si) + " failed, model expects key " + short_repr(s.pos->first));
		s.failed = true;
		return;
	}
	Bytes gk((const char *)k, kl), gv((const char *)v, vl);
	res.ev.b(gk); res.ev.u(gv.size());
	if (gk != s.pos->first)
		res.fail("MODEL", tag + "NEXT-wrongkey", "op " + std::to_string(opi) + ": next() on slot " + std::to_string(si) + " returned key " + short_repr(gk) + ", model expects " + short_repr(s.pos->first));
	else if (gv != s.pos->second)
		res.fail("MODEL", tag + "NEXT-wrongval", "op " + std::to_string(opi) + ": value mismatch for key " + short_repr(gk) + ": got " + short_repr(gv) + ", model has " + short_repr(s.pos->second));
	s.have = true; s.kp = k; s.vp = v; s.kl = kl; s.vl = vl; s.kcopy = gk; s.vcopy = gv;
	auto f = blk_of.find(gk);
	int b = f == blk_of.end() ? -1 : f->second;
	if (s.last_blk >= 0 && b >= 0 && b != s.last_blk) { s.crossed = true; res.probes["next-crossed-block"]++; }
	if (b >= 0) s.last_blk = b;
	s.cur = gk;
	++s.pos;
}

void Client::query(int kind, const Bytes &k0, const Bytes &k1, size_t opi)
{
	mtbl_iter *it = open_iter(src, kind, k0, k1);
	ClientSlot m; m.kind = kind; m.k0 = k0; m.k1 = k1;
	auto pos = kind == 0 ? model.begin() : model.lower_bound(k0);
	size_t n = 0;
	res.ev.u(kind); res.ev.b(k0); res.ev.b(k1);
	std::string what = "op " + std::to_string(opi) + ": query kind " + std::to_string(kind) + " key " + short_repr(k0) + (kind == 3 ? ".." + short_repr(k1) : "");
	for (;;) {
		const uint8_t *k, *v; size_t kl, vl;
		mtbl_res r = mtbl_iter_next(it, &k, &kl, &v, &vl);
		bool expect_ok = pos != model.end() && in_bound(m, pos->first);
		if (!expect_ok) {
			if (r == mtbl_res_success)
				res.fail("MODEL", tag + "QUERY-extra", what + " returned extra key " + short_repr(Bytes((const char *)k, kl)));
			break;
		}
		if (r != mtbl_res_success) { res.fail("MODEL", tag + "QUERY-missing", what + " missed key " + short_repr(pos->first)); break; }
		Bytes gk((const char *)k, kl), gv((const char *)v, vl);
		if (gk != pos->first) { res.fail("MODEL", tag + "QUERY-wrong", what + " returned " + short_repr(gk) + ", model expects " + short_repr(pos->first)); break; }
		if (gv != pos->second) { res.fail("MODEL", tag + "QUERY-wrongval", what + " value of " + short_repr(gk) + " is " + short_repr(gv) + ", model has " + short_repr(pos->second)); break; }
		if (n == 0 && df) {
			auto f = blk_of.find(gk);
			if (f != blk_of.end() && f->second > 0 && df->data[f->second].entries.front().key == gk && gk != k0)
				res.probes["query-lands-between-blocks"]++;
		}
		++pos; ++n;
	}
	res.ev.u(n);
	if (n) res.probes["query-nonempty"]++; else res.probes["query-empty"]++;
	if (it == nullptr) res.probes["query-null-iter"]++;
	mtbl_iter_destroy(&it);
}

// Two lookups alive at once, advanced in turn: each must still return exactly its own matches (a lookup does not own the
// reader: others may be issued on it while its iterator is open).
void Client::query_pair(int kindA, const Bytes &a0, const Bytes &a1, int kindB, const Bytes &b0, const Bytes &b1, size_t opi, uint64_t pattern)
{
	struct Q { int kind; Bytes k0, k1; mtbl_iter *it; TableModel::const_iterator pos; bool done; size_t n; ClientSlot m; } q[2];
	q[0] = Q{ kindA, a0, a1, nullptr, model.end(), false, 0, ClientSlot() };
	q[1] = Q{ kindB, b0, b1, nullptr, model.end(), false, 0, ClientSlot() };
	for (auto &x : q) {
		x.it = open_iter(src, x.kind, x.k0, x.k1);
		x.pos = x.kind == 0 ? model.begin() : model.lower_bound(x.k0);
		x.m.kind = x.kind; x.m.k0 = x.k0; x.m.k1 = x.k1;
		res.ev.u(x.kind); res.ev.b(x.k0); res.ev.b(x.k1);
	}
	res.probes["two-lookups-interleaved"]++;
	for (size_t step = 0; !(q[0].done && q[1].done) && !res.viol; step++) {
		// which one advances: mostly alternating, with runs drawn from the pattern bits
		Q &x = q[q[0].done ? 1 : q[1].done ? 0 : ((pattern >> (step % 64)) & 1)];
		std::string what = "op " + std::to_string(opi) + ": interleaved query kind " + std::to_string(x.kind) + " key " + short_repr(x.k0) + (x.kind == 3 ? ".." + short_repr(x.k1) : "");
		const uint8_t *k, *v; size_t kl, vl;
		mtbl_res r = mtbl_iter_next(x.it, &k, &kl, &v, &vl);
		bool expect_ok = x.pos != model.end() && in_bound(x.m, x.pos->first);
		if (!expect_ok) {
			if (r == mtbl_res_success) res.fail("MODEL", tag + "QUERY-extra", what + " returned extra key " + short_repr(Bytes((const char *)k, kl)));
			x.done = true;
			continue;
		}
		if (r != mtbl_res_success) { res.fail("MODEL", tag + "QUERY-missing", what + " missed key " + short_repr(x.pos->first)); break; }
		Bytes gk((const char *)k, kl), gv((const char *)v, vl);
		if (gk != x.pos->first) { res.fail("MODEL", tag + "QUERY-wrong", what + " returned " + short_repr(gk) + ", model expects " + short_repr(x.pos->first)); break; }
		if (gv != x.pos->second) { res.fail("MODEL", tag + "QUERY-wrongval", what + " value of " + short_repr(gk) + " is " + short_repr(gv) + ", model has " + short_repr(x.pos->second)); break; }
		++x.pos; ++x.n;
	}
	for (auto &x : q) { res.ev.u(x.n); if (x.n) res.probes["query-nonempty"]++; else res.probes["query-empty"]++; mtbl_iter_destroy(&x.it); }
}

bool Client::op(const Op &o, size_t opi)
{
	if (o.name == "sweepseek") {
		// every (position, target) pair of a small table: open, advance to position, seek, read on
		int kind = (int)(o.argi(0) & 3);
		size_t maxn = (size_t)o.argi(1, 60);
		size_t n = keys.size() < maxn ? keys.size() : maxn;
		std::vector<std::string> targets;
		for (size_t t = 0; t < n; t++) for (int m : { 0, 2, 4, 1 }) targets.push_back("@k" + std::to_string(t) + ":" + std::to_string(m));
		targets.push_back("@end"); targets.push_back("x");
		Bytes lo = keys.empty() ? Bytes() : keys.front();
		std::string k0 = kind == 0 ? "x" : kind == 2 ? lit(lo.substr(0, lo.size() / 2)) : lit(lo);
		size_t cases = 0;
		for (size_t pos = 0; pos <= n + 1 && !res.viol; pos++)
			for (auto &t : targets) {
				if (res.viol) break;
				op(Op{ "open", { "0", std::to_string(kind), k0, "@end" } }, opi);
				if (pos) op(Op{ "next", { "0", std::to_string(pos) } }, opi);
				op(Op{ "seek", { "0", t } }, opi);
				op(Op{ "next", { "0", "2" } }, opi);
				op(Op{ "close", { "0" } }, opi);
				cases++;
			}
		res.probes["sweep-position-target-pairs"] += cases;
		res.probes["sweepseek-runs"]++;
		return true;
	}
	if (o.name == "q") {
		int kind = (int)(o.argi(0) & 3);
		Bytes k0 = resolve(o.arg(1), nullptr), k1 = resolve(o.arg(2), nullptr);
		query(kind, k0, k1, opi);
		return true;
	}
	if (o.name == "q2") {
		int ka = (int)(o.argi(0) & 3), kb = (int)(o.argi(3) & 3);
		query_pair(ka, resolve(o.arg(1), nullptr), resolve(o.arg(2), nullptr), kb, resolve(o.arg(4), nullptr), resolve(o.arg(5), nullptr), opi, (uint64_t)strtoull(o.arg(6).c_str(), nullptr, 10));
		return true;
	}
	if (o.name == "open") {
		int si = (int)(o.argi(0) & 3);
		ClientSlot &s = slot[si];
		slot_close(s, "reopen");
		s.kind = (int)(o.argi(1) & 3);
		s.k0 = s.kind == 0 ? Bytes() : resolve(o.arg(2), nullptr);
		s.k1 = s.kind == 3 ? resolve(o.arg(3), nullptr) : Bytes();
		s.it = open_iter(src, s.kind, s.k0, s.k1);
		s.open = true;
		s.pos = s.kind == 0 ? model.begin() : model.lower_bound(s.k0);
		s.cur = s.k0;
		res.ev.u(100 + s.kind); res.ev.b(s.k0); res.ev.b(s.k1);
		if (!s.it) res.probes["null-iterator"]++;
		res.probes[std::string("open-kind-") + "igpr"[s.kind]]++;
		return true;
	}
	if (o.name == "next") {
		int si = (int)(o.argi(0) & 3);
		if (!slot[si].open) return true;
		size_t n = (size_t)o.argi(1, 1);
		for (size_t i = 0; i < n && !res.viol; i++) do_next(si, opi);
		return true;
	}
	if (o.name == "seek") {
		int si = (int)(o.argi(0) & 3);
		ClientSlot &s = slot[si];
		if (!s.open) return true;
		Bytes k = resolve(o.arg(1), &s);
		if (s.kind != 0 && mfmt::cmp(k, s.k0) < 0) { res.probes["seek-below-range-skipped"]++; return true; }
		// the key buffer handed out by the previous next() is valid up to this very call: an application that seeks "to
		// the key just returned" may pass that pointer itself rather than a copy of the bytes (every other op: a copy)
		const bool alias = s.have && (opi & 1) && k.size() == s.kl && (s.kl == 0 || memcmp(k.data(), s.kp, s.kl) == 0);
		if (!buffers_intact(s)) res.fail("MODEL", tag + "BUFFER-seek", "op " + std::to_string(opi) + ": buffers changed before seek()");
		had_any_seek = true;
		if (s.crossed) { had_seek_after_cross = true; res.probes["seek-after-cross"]++; }
		if (k == s.cur && s.have == false && s.kcopy == k) res.probes["seek-to-key-just-returned"]++;
		else if (mfmt::cmp(k, s.cur) < 0) res.probes["seek-backward"]++;
		{
			auto f = blk_of.find(s.cur); auto lb = model.lower_bound(k);
			if (f != blk_of.end() && lb != model.end()) { auto g = blk_of.find(lb->first); if (g != blk_of.end() && g->second == f->second) res.probes["seek-inside-held-block"]++; }
			if (lb == model.end()) res.probes["seek-past-end"]++;
		}
		if (s.failed) res.probes["seek-after-failure"]++;
		mtbl_res r;
		if (alias) { res.probes["seek-with-the-pointer-handed-out-by-next"]++; r = mtbl_iter_seek(s.it, s.kp, s.kl); }
		else { TmpKey t(k); r = mtbl_iter_seek(s.it, t.p, t.n); }
		res.ev.u(200 + (r == mtbl_res_success)); res.ev.b(k);
		s.pos = model.lower_bound(k);
		s.failed = false; s.crossed = false; s.cur = k;
		if (s.pos != model.end()) { auto g = blk_of.find(s.pos->first); s.last_blk = g == blk_of.end() ? -1 : g->second; }
		return true;
	}
	if (o.name == "close") {
		slot_close(slot[(int)(o.argi(0) & 3)], "close");
		return true;
	}
	return false;
}


// ------------------------------------------------------------ option objects
static uint64_t g_optvar = 1;
void optvar_begin(uint64_t seed) { g_optvar = seed * 0x9e3779b97f4a7c15ULL + 0x1234567; }
uint64_t optvar_next()
{
	g_optvar ^= g_optvar >> 12; g_optvar ^= g_optvar << 25; g_optvar ^= g_optvar >> 27;
	return (g_optvar * 0x2545F4914F6CDD1DULL) >> 16;
}
mtbl_reader_options *make_reader_options(bool verify, bool madvise)
{
	mtbl_reader_options *ro = mtbl_reader_options_init();
	uint64_t how = optvar_next();
	// the documented environment override of the madvise option: "0" / "1" / something else / empty.  It must not
	// influence anything but the advice given to the kernel.  (Inherited by the CLI tools the harness starts.)
	// (putenv with static strings: after the first call no allocation happens, which matters to the leak check's heap
	// accounting - setenv keeps every distinct value it was ever given)
	{
		static char e0[] = "MTBL_READER_MADVISE_RANDOM=0", e1[] = "MTBL_READER_MADVISE_RANDOM=1", e2[] = "MTBL_READER_MADVISE_RANDOM=yes", e3[] = "MTBL_READER_MADVISE_RANDOM=";
		switch ((how >> 8) % 6) {
		case 0: putenv(e0); break;
		case 1: putenv(e1); break;
		case 2: putenv(e2); break;
		default: putenv(e3);	// present but empty: like unset, neither "0" nor "1"
		}
	}
	auto set_v = [&](bool flipflop) { if (flipflop) mtbl_reader_options_set_verify_checksums(ro, !verify); mtbl_reader_options_set_verify_checksums(ro, verify); };
	auto set_m = [&](bool flipflop) { if (flipflop) mtbl_reader_options_set_madvise_random(ro, !madvise); mtbl_reader_options_set_madvise_random(ro, madvise); };
	bool skip_default_m = !madvise && (how & 16), skip_default_v = !verify && (how & 32);	// a default left unset
	if (how & 1) { if (!skip_default_m) set_m(how & 2); if (!skip_default_v) set_v(how & 4); if ((how & 8) && !skip_default_m) set_m(false); }
	else { if (!skip_default_v) set_v(how & 2); if (!skip_default_m) set_m(how & 4); if ((how & 8) && !skip_default_v) set_v(false); }
	return ro;
}
