# Builds the simulator from /repo's CURRENT working tree (never the in-tree
# objects or an installed library).  Variants: asan, tsan, plain.
REPO ?= /repo
B ?= build
CC := clang
CXX := clang++
VARIANTS := asan tsan plain

# the library's sources as /repo's own Makefile.am lists them (a change that adds a file is built too)
REPO_C := $(shell sed -n '/^mtbl_libmtbl_la_SOURCES/,/^$$/p' $(REPO)/Makefile.am | tr ' \t\\' '\n\n\n' | grep '\.c$$')
ifeq ($(strip $(REPO_C)),)
$(error cannot read mtbl_libmtbl_la_SOURCES from $(REPO)/Makefile.am)
endif
TOOLS := mtbl_dump mtbl_info mtbl_verify mtbl_merge
ENGINES := table merge sorter fileset corrupt sched leak wfault
ENGINE_SRC := $(foreach e,$(ENGINES),$(wildcard engines/$(e).cc))
HAVE := $(foreach e,$(ENGINES),$(if $(wildcard engines/$(e).cc),-DHAVE_$(shell echo $(e) | tr a-z A-Z)))
$(shell mkdir -p $(B); echo "$(HAVE)" | cmp -s - $(B)/have.flags || echo "$(HAVE)" > $(B)/have.flags)
HARNESS_CC := engines/main.cc engines/common.cc engines/stubs.cc engines/tablelib.cc engines/sorterlib.cc engines/huge.cc model/mtblfmt.cc $(ENGINE_SRC)

FLAGS_asan := -O1 -g -fno-omit-frame-pointer -fsanitize=address,undefined -fno-sanitize=alignment -fno-sanitize-recover=undefined
FLAGS_tsan := -O1 -g -fno-omit-frame-pointer -fsanitize=thread
FLAGS_plain := -O2 -g
# coverage build (selftest/coverage.sh only; not part of `all`)
FLAGS_cov := -O1 -g -fprofile-instr-generate -fcoverage-mapping
REPO_DEFS := -include sim/repo_config.h -I$(REPO) -I$(REPO)/mtbl -DMTBL_VERIF -Isim -msse4.2 -Wno-macro-redefined -include sim/seams/pthread.h

SEAM_mtbl/writer.c := -include sim/seams.h -Dwrite=sim_write -Dwritev=sim_writev -Dpwrite=sim_pwrite -Dpwritev=sim_pwritev -Dopen=sim_open -Dclose=sim_close -Ddup=sim_dup
SEAM_mtbl/reader.c := -include sim/seams.h -Dmmap=sim_mmap -Dmunmap=sim_munmap -Dopen=sim_open -Dclose=sim_close
SEAM_mtbl/sorter.c := -include sim/seams.h -Dmkstemp=sim_mkstemp -Dmkostemp=sim_mkostemp -Dopen=sim_open -Dunlink=sim_unlink -Dclose=sim_close
SEAM_mtbl/fileset.c := -include sim/seams.h -Dclock_gettime=sim_clock_gettime

LIBS := -lsnappy -lz -llz4 -lzstd -lpthread -ldl

all: $(foreach v,$(VARIANTS),$(B)/$(v)/mtblsim) $(foreach t,$(TOOLS),$(B)/tools/$(t)) $(B)/tools/merge_union.so

# nosan objects: the scheduler and the "kernel side" seams are never instrumented
$(B)/nosan/%.o: sim/%.c sim/*.h
	@mkdir -p $(dir $@)
	$(CC) -O2 -g -fno-omit-frame-pointer -c $< -o $@
NOSAN := $(B)/nosan/sched.o $(B)/nosan/seams.o

define VARIANT_RULES
$(B)/$(1)/repo/%.o: $(REPO)/%.c $(wildcard $(REPO)/mtbl/*.h) $(wildcard $(REPO)/libmy/*.h) sim/seams.h sim/seams/pthread.h sim/simsched.h
	@mkdir -p $$(dir $$@)
	$(CC) $$(FLAGS_$(1)) $(REPO_DEFS) $$(SEAM_$$*.c) -c $$< -o $$@
$(B)/$(1)/h/%.o: %.cc engines/*.h model/*.h sim/*.h $(B)/have.flags
	@mkdir -p $$(dir $$@)
	$(CXX) -std=c++17 $$(FLAGS_$(1)) -I$(REPO)/mtbl $(HAVE) -c $$< -o $$@
$(B)/$(1)/h/trap.o: sim/trap.c sim/trap.h
	@mkdir -p $$(dir $$@)
	$(CC) $$(FLAGS_$(1)) -c $$< -o $$@
$(B)/$(1)/mtblsim: $(NOSAN) $(B)/$(1)/h/trap.o $(patsubst %.c,$(B)/$(1)/repo/%.o,$(REPO_C)) $(patsubst %.cc,$(B)/$(1)/h/%.o,$(HARNESS_CC))
	$(CXX) $$(FLAGS_$(1)) -Wl,--wrap=__assert_fail -rdynamic $$^ -o $$@ $(LIBS)
endef
$(foreach v,$(VARIANTS) cov,$(eval $(call VARIANT_RULES,$(v))))

# the repo's CLI tools, linked against the plain objects (seams pass through, pthreads are real)
$(B)/tools/%: $(REPO)/src/%.c $(NOSAN) $(patsubst %.c,$(B)/plain/repo/%.o,$(REPO_C))
	@mkdir -p $(dir $@)
	$(CC) -O2 -g $(REPO_DEFS) $< $(NOSAN) $(patsubst %.c,$(B)/plain/repo/%.o,$(REPO_C)) -o $@ $(LIBS)
$(B)/tools/merge_union.so: engines/merge_union.c
	@mkdir -p $(dir $@)
	$(CC) -O2 -g -shared -fPIC $< -o $@

clean:
	rm -rf $(B)
.PHONY: all clean
.SECONDARY:
