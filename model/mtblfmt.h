// Independent implementation of the MTBL file format (v1 and v2), written
// from the format description; shares no code with /repo: own varint, own
// little-endian fixed ints, own table-driven CRC-32C, direct calls into
// zlib / snappy / lz4 / zstd for block payloads.
#pragma once
#include <cstdint>
#include <string>
#include <utility>
#include <vector>
#include "../sim/prng.h"

namespace mfmt {

typedef std::string Bytes;
typedef std::vector<std::pair<Bytes, Bytes>> Entries;

uint32_t crc32c(const uint8_t *p, size_t n);
bool selftest();	// CRC check vectors, varint round trip

// unsigned bytewise comparison, shorter prefix first
int cmp(const Bytes &a, const Bytes &b);
size_t lcp(const Bytes &a, const Bytes &b);

struct DEntry {
	Bytes key, val;
	uint32_t shared = 0;
	uint64_t off = 0;	// offset inside the uncompressed block
	bool restart = false;	// a restart point names this offset
};

struct DBlock {
	uint64_t off = 0;		// file offset of the length prefix
	uint32_t len_len = 0;		// bytes of the length prefix
	uint64_t stored_len = 0;	// payload bytes as stored (compressed)
	uint64_t payload_off = 0;	// file offset of the payload
	uint32_t crc_stored = 0, crc_calc = 0;
	uint64_t framed = 0;		// len_len + 4 + stored_len
	uint64_t raw_size = 0;		// uncompressed bytes
	bool restart64 = false;
	std::vector<uint64_t> restarts;
	std::vector<DEntry> entries;
};

struct DFile {
	int version = 2;		// 1 or 2
	uint64_t index_off = 0, block_size = 0, algo = 0, n_entries = 0, n_blocks = 0,
	    bytes_data = 0, bytes_index = 0, bytes_keys = 0, bytes_vals = 0;
	uint32_t magic = 0;
	std::vector<DBlock> data;
	DBlock index;
	std::vector<std::pair<Bytes, uint64_t>> index_entries;
	std::vector<std::string> errors;	// "RULE-ID detail"
	bool fatal = false;			// structure too broken to continue
};

struct DecodeOpts {
	uint64_t start = 0;		// file offset where the table starts (foreign prefix length)
	uint64_t block_size = 0;	// configured (after clamping); 0 = do not check size rules
	uint64_t restart_interval = 0;	// 0 = do not check cadence
	bool writer_rules = true;	// rules that only hold for today's writer (maximal sharing, cadence, size gate, canonical separators not required)
};

// Parses `file`, filling `out`; every broken rule is appended to out.errors.
void decode(const Bytes &file, const DecodeOpts &opt, DFile &out);

// ---- encoder with every legal degree of freedom under PRNG control ----
struct EncOpts {
	int version = 2;
	int algo = 0;		// 0 none 1 snappy 2 zlib 3 lz4 4 lz4hc 5 zstd
	uint64_t seed = 1;
	Bytes foreign_prefix;
	int max_block_entries = 8;	// blocks get 1..max entries (drawn per block)
	int restart_pm = 300;		// chance per entry of being a restart point
	int share_mode = 0;		// 0 maximal, 1 random in [0,lcp], 2 none
	int sep_mode = 0;		// 0 random legal, 1 last key, 2 shortest, 3 just below next
	uint64_t block_size_field = 8192;
	bool comp_vary = true;	// compressor settings (window, level, strategy, variant, frame checksum) drawn per block
};
struct EncInfo { std::vector<uint64_t> block_offs; std::vector<Bytes> seps; uint64_t index_off = 0; };
Bytes encode(const Entries &e, const EncOpts &o, EncInfo *info = nullptr);

// helpers shared with engines
size_t put_varint(uint8_t *p, uint64_t v);
size_t get_varint(const uint8_t *p, const uint8_t *end, uint64_t *v);	// 0 on failure
bool compress(int algo, const Bytes &in, Bytes &out);
bool compress_var(int algo, const Bytes &in, Bytes &out, uint64_t var);	// var 0 = compress()
bool decompress(int algo, const uint8_t *in, size_t n, Bytes &out);

} // namespace mfmt
