// Independent MTBL codec.  See mtblfmt.h.
#include "mtblfmt.h"
#include <cstring>
#include <lz4.h>
#include <lz4hc.h>
#include <snappy-c.h>
#include <zlib.h>
#include <zstd.h>

namespace mfmt {

// ------------------------------------------------------------- primitives
static uint32_t crc_table[256];
static bool crc_ready = false;
static void crc_init()
{
	for (uint32_t i = 0; i < 256; i++) {
		uint32_t c = i;
		for (int k = 0; k < 8; k++)
			c = (c & 1) ? (c >> 1) ^ 0x82F63B78u : c >> 1;	// reflected Castagnoli
		crc_table[i] = c;
	}
	crc_ready = true;
}
uint32_t crc32c(const uint8_t *p, size_t n)
{
	if (!crc_ready) crc_init();
	uint32_t c = 0xFFFFFFFFu;
	for (size_t i = 0; i < n; i++)
		c = crc_table[(c ^ p[i]) & 0xFF] ^ (c >> 8);
	return c ^ 0xFFFFFFFFu;
}

static uint32_t rd32(const uint8_t *p) { return p[0] | p[1] << 8 | p[2] << 16 | (uint32_t)p[3] << 24; }
static uint64_t rd64(const uint8_t *p) { return (uint64_t)rd32(p) | (uint64_t)rd32(p + 4) << 32; }
static void wr32(Bytes &b, uint32_t v) { for (int i = 0; i < 4; i++) b.push_back((char)(v >> (8 * i))); }
static void wr64(Bytes &b, uint64_t v) { for (int i = 0; i < 8; i++) b.push_back((char)(v >> (8 * i))); }

size_t put_varint(uint8_t *p, uint64_t v)
{
	size_t n = 0;
	while (v >= 0x80) { p[n++] = (uint8_t)(v | 0x80); v >>= 7; }
	p[n++] = (uint8_t)v;
	return n;
}
static void wr_varint(Bytes &b, uint64_t v)
{
	uint8_t t[10];
	size_t n = put_varint(t, v);
	b.append((const char *)t, n);
}
size_t get_varint(const uint8_t *p, const uint8_t *end, uint64_t *v)
{
	uint64_t r = 0;
	for (size_t i = 0; i < 10 && p + i < end; i++) {
		r |= (uint64_t)(p[i] & 0x7f) << (7 * i);
		if (!(p[i] & 0x80)) { *v = r; return i + 1; }
	}
	return 0;
}
static size_t varint_len(uint64_t v) { size_t n = 1; while (v >= 0x80) { v >>= 7; n++; } return n; }

int cmp(const Bytes &a, const Bytes &b)
{
	size_t n = a.size() < b.size() ? a.size() : b.size();
	for (size_t i = 0; i < n; i++) {
		uint8_t x = (uint8_t)a[i], y = (uint8_t)b[i];
		if (x != y) return x < y ? -1 : 1;
	}
	return a.size() < b.size() ? -1 : a.size() > b.size() ? 1 : 0;
}
size_t lcp(const Bytes &a, const Bytes &b)
{
	size_t n = a.size() < b.size() ? a.size() : b.size(), i = 0;
	while (i < n && a[i] == b[i]) i++;
	return i;
}

bool selftest()
{
	if (crc32c((const uint8_t *)"123456789", 9) != 0xE3069283u) return false;
	uint8_t z[32]; memset(z, 0, 32);
	if (crc32c(z, 32) != 0x8A9136AAu) return false;		// iSCSI vectors (RFC 3720 B.4)
	memset(z, 0xFF, 32);
	if (crc32c(z, 32) != 0x62A8AB43u) return false;
	for (int i = 0; i < 32; i++) z[i] = (uint8_t)i;
	if (crc32c(z, 32) != 0x46DD794Eu) return false;
	uint64_t vals[] = { 0, 1, 127, 128, 16383, 16384, 0xFFFFFFFFull, 1ull << 35, ~0ull };
	for (uint64_t v : vals) {
		uint8_t t[10]; uint64_t w;
		size_t n = put_varint(t, v);
		if (n != varint_len(v) || get_varint(t, t + n, &w) != n || w != v) return false;
	}
	return true;
}

// ------------------------------------------------------------- compression
bool compress(int algo, const Bytes &in, Bytes &out)
{
	switch (algo) {
	case 0: out = in; return true;
	case 1: {
		size_t n = snappy_max_compressed_length(in.size());
		out.resize(n);
		if (snappy_compress(in.data(), in.size(), &out[0], &n) != SNAPPY_OK) return false;
		out.resize(n); return true;
	}
	case 2: {
		uLongf n = compressBound(in.size());
		out.resize(n);
		if (compress2((Bytef *)&out[0], &n, (const Bytef *)in.data(), in.size(), 6) != Z_OK) return false;
		out.resize(n); return true;
	}
	case 3: case 4: {
		int bound = LZ4_compressBound((int)in.size());
		out.assign(4 + bound, 0);
		int n = algo == 3 ? LZ4_compress_default(in.data(), &out[4], (int)in.size(), bound)
				  : LZ4_compress_HC(in.data(), &out[4], (int)in.size(), bound, 4);
		if (n <= 0) return false;
		uint32_t u = (uint32_t)in.size();
		for (int i = 0; i < 4; i++) out[i] = (char)(u >> (8 * i));
		out.resize(4 + n); return true;
	}
	case 5: {
		size_t bound = ZSTD_compressBound(in.size());
		out.resize(bound);
		size_t n = ZSTD_compress(&out[0], bound, in.data(), in.size(), 3);
		if (ZSTD_isError(n)) return false;
		out.resize(n); return true;
	}
	}
	return false;
}

// Same formats, other legal encoder settings: any reader must accept these as well.
//   zlib : window 2^9..2^15, level 0..9 (0 = stored blocks), strategies, memLevel
//   lz4  : fast with any acceleration / HC with any level (both produce plain LZ4 block streams)
//   zstd : levels -5..19, optional frame checksum (content size always present, single frame)
bool compress_var(int algo, const Bytes &in, Bytes &out, uint64_t var)
{
	if (var == 0) return compress(algo, in, out);
	switch (algo) {
	case 2: {
		z_stream z; memset(&z, 0, sizeof z);
		int wbits = 9 + (int)(var % 7), level = (int)((var >> 8) % 10), mem = 1 + (int)((var >> 16) % 9);
		static const int strat[] = { Z_DEFAULT_STRATEGY, Z_FILTERED, Z_HUFFMAN_ONLY, Z_RLE, Z_FIXED };
		if (deflateInit2(&z, level, Z_DEFLATED, wbits, mem, strat[(var >> 24) % 5]) != Z_OK) return false;
		out.resize(deflateBound(&z, in.size()) + 64);
		z.next_in = (Bytef *)in.data(); z.avail_in = (uInt)in.size();
		z.next_out = (Bytef *)&out[0]; z.avail_out = (uInt)out.size();
		int r = deflate(&z, Z_FINISH);
		size_t n = z.total_out;
		deflateEnd(&z);
		if (r != Z_STREAM_END) return false;
		out.resize(n); return true;
	}
	case 3: case 4: {
		int bound = LZ4_compressBound((int)in.size());
		out.assign(4 + bound, 0);
		int n = (var & 1) ? LZ4_compress_fast(in.data(), &out[4], (int)in.size(), bound, 1 + (int)((var >> 8) % 64))
				  : LZ4_compress_HC(in.data(), &out[4], (int)in.size(), bound, 1 + (int)((var >> 8) % 12));
		if (n <= 0) return false;
		uint32_t u = (uint32_t)in.size();
		for (int i = 0; i < 4; i++) out[i] = (char)(u >> (8 * i));
		out.resize(4 + n); return true;
	}
	case 5: {
		ZSTD_CCtx *c = ZSTD_createCCtx();
		if (!c) return false;
		ZSTD_CCtx_setParameter(c, ZSTD_c_compressionLevel, (int)(var % 25) - 5);
		ZSTD_CCtx_setParameter(c, ZSTD_c_checksumFlag, (int)((var >> 8) & 1));
		ZSTD_CCtx_setParameter(c, ZSTD_c_contentSizeFlag, 1);
		size_t bound = ZSTD_compressBound(in.size());
		out.resize(bound);
		size_t n = ZSTD_compress2(c, &out[0], bound, in.data(), in.size());
		ZSTD_freeCCtx(c);
		if (ZSTD_isError(n)) return false;
		out.resize(n); return true;
	}
	default: return compress(algo, in, out);
	}
}

bool decompress(int algo, const uint8_t *in, size_t n, Bytes &out)
{
	switch (algo) {
	case 0: out.assign((const char *)in, n); return true;
	case 1: {
		size_t m;
		if (snappy_uncompressed_length((const char *)in, n, &m) != SNAPPY_OK) return false;
		out.resize(m);
		if (snappy_uncompress((const char *)in, n, &out[0], &m) != SNAPPY_OK) return false;
		out.resize(m); return true;
	}
	case 2: {
		z_stream zs; memset(&zs, 0, sizeof zs);
		if (inflateInit(&zs) != Z_OK) return false;
		out.clear();
		char buf[65536];
		zs.next_in = (Bytef *)in; zs.avail_in = (uInt)n;
		int r;
		do {
			zs.next_out = (Bytef *)buf; zs.avail_out = sizeof buf;
			r = inflate(&zs, Z_NO_FLUSH);
			if (r != Z_OK && r != Z_STREAM_END) { inflateEnd(&zs); return false; }
			out.append(buf, sizeof buf - zs.avail_out);
		} while (r != Z_STREAM_END);
		bool ok = zs.avail_in == 0;
		inflateEnd(&zs);
		return ok;
	}
	case 3: case 4: {
		if (n < 4) return false;
		uint32_t m = rd32(in);
		if (m > (1u << 30)) return false;
		out.resize(m);
		int r = LZ4_decompress_safe((const char *)in + 4, m ? &out[0] : (char *)"", (int)(n - 4), (int)m);
		return r >= 0 && (uint32_t)r == m;
	}
	case 5: {
		unsigned long long m = ZSTD_getFrameContentSize(in, n);
		if (m == ZSTD_CONTENTSIZE_ERROR || m == ZSTD_CONTENTSIZE_UNKNOWN || m > (1ull << 30)) return false;
		out.resize(m);
		size_t r = ZSTD_decompress(m ? &out[0] : (char *)"", m, in, n);
		return !ZSTD_isError(r) && r == m;
	}
	}
	return false;
}

// ------------------------------------------------------------------ decoder
static void err(DFile &f, const std::string &rule, const std::string &detail)
{
	if (f.errors.size() < 32) f.errors.push_back(rule + " " + detail);
}

// parse the uncompressed contents of one block
static bool parse_raw(DFile &f, DBlock &b, const Bytes &raw, const std::string &what)
{
	const uint8_t *d = (const uint8_t *)raw.data();
	size_t n = raw.size();
	b.raw_size = n;
	if (n < 8) { err(f, "R-BLOCK-SMALL", what); return false; }
	uint32_t nr = rd32(d + n - 4);
	if (nr == 0) { err(f, "R-RESTART-NONE", what); return false; }
	uint64_t roff;
	if ((uint64_t)nr * 4 + 4 > n) { err(f, "R-RESTART-ARRAY", what); return false; }
	roff = n - 4 - (uint64_t)nr * 4;
	b.restart64 = false;
	if (roff > 0xFFFFFFFFull) {
		if ((uint64_t)nr * 8 + 4 > n) { err(f, "R-RESTART-ARRAY", what); return false; }
		roff = n - 4 - (uint64_t)nr * 8;
		b.restart64 = true;
	}
	b.restarts.clear();
	for (uint32_t i = 0; i < nr; i++)
		b.restarts.push_back(b.restart64 ? rd64(d + roff + 8ull * i) : rd32(d + roff + 4ull * i));
	if (b.restarts[0] != 0) err(f, "R-RESTART-FIRST0", what);
	for (uint32_t i = 1; i < nr; i++)
		if (b.restarts[i] <= b.restarts[i - 1]) { err(f, "R-RESTART-INC", what); break; }
	for (uint32_t i = 0; i < nr; i++)
		if (b.restarts[i] >= roff && !(roff == 0 && b.restarts[i] == 0)) { err(f, "R-RESTART-RANGE", what); break; }

	size_t pos = 0, ri = 0;
	Bytes prev;
	b.entries.clear();
	while (pos < roff) {
		DEntry e;
		e.off = pos;
		uint64_t sh, ns, vl;
		size_t k;
		const uint8_t *end = d + roff;
		if (!(k = get_varint(d + pos, end, &sh))) { err(f, "R-ENTRY-HDR", what); return false; } pos += k;
		if (k != varint_len(sh)) err(f, "R-VARINT-CANON", what + " entry shared");
		if (!(k = get_varint(d + pos, end, &ns))) { err(f, "R-ENTRY-HDR", what); return false; } pos += k;
		if (k != varint_len(ns)) err(f, "R-VARINT-CANON", what + " entry non_shared");
		if (!(k = get_varint(d + pos, end, &vl))) { err(f, "R-ENTRY-HDR", what); return false; } pos += k;
		if (k != varint_len(vl)) err(f, "R-VARINT-CANON", what + " entry value_length");
		if (sh > 0xFFFFFFFFull || ns > 0xFFFFFFFFull || vl > 0xFFFFFFFFull) { err(f, "R-ENTRY-LEN32", what); return false; }
		if (ns + vl > roff - pos) { err(f, "R-ENTRY-OVERRUN", what); return false; }
		if (sh > prev.size()) { err(f, "R-ENTRY-SHARED-TOO-LONG", what); return false; }
		e.shared = (uint32_t)sh;
		e.key = prev.substr(0, sh) + Bytes((const char *)d + pos, ns);
		pos += ns;
		e.val.assign((const char *)d + pos, vl);
		pos += vl;
		while (ri < b.restarts.size() && b.restarts[ri] < e.off) { err(f, "R-RESTART-ALIGN", what); ri++; }
		if (ri < b.restarts.size() && b.restarts[ri] == e.off) {
			e.restart = true; ri++;
			if (e.shared != 0) err(f, "R-RESTART-SHARED0", what);
		}
		prev = e.key;
		b.entries.push_back(std::move(e));
	}
	if (ri < b.restarts.size() && !b.entries.empty()) err(f, "R-RESTART-ALIGN", what + " (dangling)");
	return true;
}

static void writer_rules_block(DFile &f, const DBlock &b, const DecodeOpts &o, const std::string &what)
{
	if (b.restart64 != (b.raw_size > 0 && false)) { /* 64-bit arrays only above 4 GiB; never here */ }
	for (size_t i = 0; i < b.entries.size(); i++) {
		const DEntry &e = b.entries[i];
		if (o.restart_interval) {
			bool want = (i % o.restart_interval) == 0;
			if (want != e.restart) { err(f, "R-RESTART-CADENCE", what + " entry " + std::to_string(i)); break; }
		}
		if (!e.restart && i > 0) {
			size_t l = lcp(b.entries[i - 1].key, e.key);
			if (e.shared != l) { err(f, "R-SHARED-LCP", what + " entry " + std::to_string(i)); break; }
		}
	}
	if (b.restart64) err(f, "R-RESTART-WIDTH", what);
}

static bool read_framed(DFile &f, const Bytes &file, uint64_t off, uint64_t limit, DBlock &b, const std::string &what)
{
	const uint8_t *d = (const uint8_t *)file.data();
	b.off = off;
	if (f.version == 1) {
		if (off + 8 > limit) { err(f, "R-FRAME-OVERRUN", what); return false; }
		b.len_len = 4; b.stored_len = rd32(d + off);
	} else {
		uint64_t v;
		size_t k = get_varint(d + off, d + limit, &v);
		if (!k) { err(f, "R-FRAME-LEN", what); return false; }
		if (k != varint_len(v)) err(f, "R-VARINT-CANON", what + " length prefix");
		b.len_len = (uint32_t)k; b.stored_len = v;
	}
	if (off + b.len_len + 4 > limit || b.stored_len > limit - off - b.len_len - 4) { err(f, "R-FRAME-OVERRUN", what); return false; }
	b.crc_stored = rd32(d + off + b.len_len);
	b.payload_off = off + b.len_len + 4;
	b.crc_calc = crc32c(d + b.payload_off, b.stored_len);
	b.framed = b.len_len + 4 + b.stored_len;
	if (b.crc_stored != b.crc_calc) err(f, "R-CRC", what);
	return true;
}

void decode(const Bytes &file, const DecodeOpts &o, DFile &f)
{
	const uint8_t *d = (const uint8_t *)file.data();
	size_t n = file.size();
	if (n < 512 || n - 512 < o.start) { err(f, "R-TRAILER-SIZE", "file too small"); f.fatal = true; return; }
	const uint8_t *t = d + n - 512;
	f.index_off = rd64(t); f.block_size = rd64(t + 8); f.algo = rd64(t + 16); f.n_entries = rd64(t + 24);
	f.n_blocks = rd64(t + 32); f.bytes_data = rd64(t + 40); f.bytes_index = rd64(t + 48);
	f.bytes_keys = rd64(t + 56); f.bytes_vals = rd64(t + 64);
	for (size_t i = 72; i < 508; i++) if (t[i]) { err(f, "R-PAD", "trailer padding not zero"); break; }
	f.magic = rd32(t + 508);
	if (f.magic == 0x4D54424Cu) f.version = 2;
	else if (f.magic == 0x77846676u) f.version = 1;
	else { err(f, "R-MAGIC", "bad magic"); f.fatal = true; return; }
	if (f.algo > 5) { err(f, "R-ALGO", "unknown compression"); f.fatal = true; return; }
	uint64_t body_end = n - 512;
	if (f.index_off < o.start || f.index_off >= body_end) { err(f, "R-INDEX-OFFSET", "index offset outside body"); f.fatal = true; return; }

	uint64_t off = o.start;
	while (off < f.index_off) {
		DBlock b;
		std::string what = "data block " + std::to_string(f.data.size()) + " @" + std::to_string(off);
		if (!read_framed(f, file, off, f.index_off, b, what)) { f.fatal = true; return; }
		Bytes raw;
		if (!decompress((int)f.algo, d + b.payload_off, b.stored_len, raw)) { err(f, "R-DECOMP", what); f.fatal = true; return; }
		if (!parse_raw(f, b, raw, what)) { f.fatal = true; return; }
		if (b.entries.empty()) err(f, "R-BLOCK-EMPTY", what);
		if (o.writer_rules) writer_rules_block(f, b, o, what);
		off += b.framed;
		f.data.push_back(std::move(b));
	}
	if (off != f.index_off) { err(f, "R-CONTIG", "data blocks do not end at the index offset"); f.fatal = true; return; }

	if (!read_framed(f, file, f.index_off, body_end, f.index, "index block")) { f.fatal = true; return; }
	if (f.index_off + f.index.framed != body_end) err(f, "R-CONTIG", "index block does not end at the trailer");
	Bytes iraw((const char *)d + f.index.payload_off, f.index.stored_len);
	if (f.data.empty() && f.index.stored_len >= 8) {
		/* empty table: index block has a restart array and no entries */
	}
	if (!parse_raw(f, f.index, iraw, "index block")) { f.fatal = true; return; }
	if (o.writer_rules) writer_rules_block(f, f.index, o, "index block");

	// ordering across the file
	const Bytes *prev = nullptr;
	for (auto &b : f.data)
		for (auto &e : b.entries) {
			if (prev && cmp(*prev, e.key) >= 0) { err(f, "R-ORDER", "keys not strictly increasing"); goto order_done; }
			prev = &e.key;
		}
order_done:
	// index entries
	if (f.index.entries.size() != f.data.size())
		err(f, "R-INDEX-COUNT", std::to_string(f.index.entries.size()) + " index entries for " + std::to_string(f.data.size()) + " blocks");
	for (size_t i = 0; i < f.index.entries.size(); i++) {
		const DEntry &ie = f.index.entries[i];
		uint64_t v = 0;
		const uint8_t *vp = (const uint8_t *)ie.val.data();
		size_t k = get_varint(vp, vp + ie.val.size(), &v);
		if (!k || k != ie.val.size() || k != varint_len(v)) err(f, "R-INDEX-OFF", "index value " + std::to_string(i) + " not a canonical varint");
		f.index_entries.push_back({ ie.key, v });
		if (i < f.data.size()) {
			if (v != f.data[i].off) err(f, "R-INDEX-OFF", "index value " + std::to_string(i) + " is not the block's start offset");
			if (!f.data[i].entries.empty() && cmp(f.data[i].entries.back().key, ie.key) > 0)
				err(f, "R-INDEX-SEP-LO", "separator " + std::to_string(i) + " below the block's last key");
			if (i + 1 < f.data.size() && !f.data[i + 1].entries.empty() && cmp(ie.key, f.data[i + 1].entries.front().key) >= 0)
				err(f, "R-INDEX-SEP-HI", "separator " + std::to_string(i) + " not below the next block's first key");
		}
	}
	// size rules of today's writer
	if (o.writer_rules && o.block_size) {
		for (size_t i = 0; i < f.data.size(); i++) {
			const DBlock &b = f.data[i];
			if (b.entries.size() > 1 && b.raw_size > o.block_size)
				err(f, "R-BLOCKSIZE", "block " + std::to_string(i) + " with " + std::to_string(b.entries.size()) + " entries is " + std::to_string(b.raw_size) + " bytes");
			if (i + 1 < f.data.size() && !f.data[i + 1].entries.empty()) {
				const DEntry &nx = f.data[i + 1].entries.front();
				if (b.raw_size + 15 + nx.key.size() + nx.val.size() < o.block_size)
					err(f, "R-CUT-EARLY", "block " + std::to_string(i) + " closed at " + std::to_string(b.raw_size) + " bytes");
			}
		}
	}
}

// ------------------------------------------------------------------ encoder
static Bytes build_block(const Entries &e, size_t from, size_t to, const EncOpts &o, Rng &rng, bool is_index)
{
	Bytes b;
	std::vector<uint32_t> restarts;
	Bytes prev;
	for (size_t i = from; i < to; i++) {
		bool restart = (i == from) || rng.chance(o.restart_pm, 1000);
		size_t sh = 0;
		if (restart) restarts.push_back((uint32_t)b.size());
		else {
			size_t l = lcp(prev, e[i].first);
			int mode = is_index ? 0 : o.share_mode;
			sh = mode == 0 ? l : mode == 1 ? (size_t)rng.below(l + 1) : 0;
		}
		wr_varint(b, sh);
		wr_varint(b, e[i].first.size() - sh);
		wr_varint(b, e[i].second.size());
		b.append(e[i].first, sh, Bytes::npos);
		b.append(e[i].second);
		prev = e[i].first;
	}
	if (restarts.empty()) restarts.push_back(0);
	for (uint32_t r : restarts) wr32(b, r);
	wr32(b, (uint32_t)restarts.size());
	return b;
}

static Bytes successor_below(const Bytes &lo, const Bytes &hi, Rng &rng, int mode, bool has_hi)
{
	// returns k with lo <= k and (no hi or k < hi)
	std::vector<Bytes> cand;
	cand.push_back(lo);
	if (mode == 1) return lo;
	Bytes a = lo; a.push_back('\0');
	if (!has_hi || cmp(a, hi) < 0) cand.push_back(a);
	Bytes b2 = lo; b2.append("\xff\x00zz", 4);
	if (!has_hi || cmp(b2, hi) < 0) cand.push_back(b2);
	if (has_hi) {
		// shortest separator, LevelDB style
		size_t l = lcp(lo, hi);
		if (l < lo.size() && l < hi.size()) {
			uint8_t c = (uint8_t)lo[l];
			if (c < 0xFF && c + 1 < (uint8_t)hi[l]) {
				Bytes s = lo.substr(0, l); s.push_back((char)(c + 1));
				cand.push_back(s);
				if (mode == 2) return s;
			}
		}
		// just below hi: hi with its last byte decremented and 0xFF padding, or hi without last byte
		if (!hi.empty()) {
			Bytes s = hi.substr(0, hi.size() - 1);
			if (cmp(lo, s) <= 0 && cmp(s, hi) < 0) { cand.push_back(s); if (mode == 3) return s; }
			if ((uint8_t)hi.back() > 0) {
				Bytes u = hi; u.back() = (char)((uint8_t)u.back() - 1); u.append("\xff\xff", 2);
				if (cmp(lo, u) <= 0 && cmp(u, hi) < 0) { cand.push_back(u); if (mode == 3) return u; }
			}
		}
	} else {
		Bytes s = lo; s.append("~~~", 3); cand.push_back(s);
		Bytes u(1, '\xff'); u.append(lo); if (cmp(lo, u) <= 0) cand.push_back(u);
	}
	if (mode == 2 || mode == 3) return cand.back();
	return cand[rng.below(cand.size())];
}

Bytes encode(const Entries &e, const EncOpts &o, EncInfo *info)
{
	Rng rng(o.seed, 0xE4C, 11);
	Rng crng(o.seed, 0xC0C0, 3);	// compressor settings: a stream of its own, the structure choices do not depend on it
	Bytes f = o.foreign_prefix;
	Entries idx;
	uint64_t n_blocks = 0, bytes_data = 0, bytes_keys = 0, bytes_vals = 0;
	size_t i = 0;
	auto frame = [&](const Bytes &payload) {
		size_t start = f.size();
		if (o.version == 1) wr32(f, (uint32_t)payload.size());
		else wr_varint(f, payload.size());
		wr32(f, crc32c((const uint8_t *)payload.data(), payload.size()));
		f.append(payload);
		return f.size() - start;
	};
	while (i < e.size()) {
		size_t cnt = 1 + rng.below(o.max_block_entries > 0 ? o.max_block_entries : 1);
		size_t to = i + cnt > e.size() ? e.size() : i + cnt;
		Bytes raw = build_block(e, i, to, o, rng, false), stored;
		uint64_t var = o.comp_vary && crng.chance(2, 3) ? (crng.next() | 1u << 31) : 0;
		if (!compress_var(o.algo, raw, stored, var)) { if (!compress(o.algo, raw, stored)) stored = raw; }
		uint64_t off = f.size();
		bytes_data += frame(stored);
		n_blocks++;
		bool has_next = to < e.size();
		Bytes sep = successor_below(e[to - 1].first, has_next ? e[to].first : Bytes(), rng, o.sep_mode, has_next);
		uint8_t t[10];
		size_t k = put_varint(t, off);
		idx.push_back({ sep, Bytes((const char *)t, k) });
		if (info) { info->block_offs.push_back(off); info->seps.push_back(sep); }
		for (size_t j = i; j < to; j++) { bytes_keys += e[j].first.size(); bytes_vals += e[j].second.size(); }
		i = to;
	}
	uint64_t index_off = f.size();
	Bytes iraw = build_block(idx, 0, idx.size(), o, rng, true);
	uint64_t bytes_index = frame(iraw);
	if (info) info->index_off = index_off;
	Bytes t;
	wr64(t, index_off); wr64(t, o.block_size_field); wr64(t, (uint64_t)o.algo); wr64(t, e.size());
	wr64(t, n_blocks); wr64(t, bytes_data); wr64(t, bytes_index); wr64(t, bytes_keys); wr64(t, bytes_vals);
	t.resize(508, '\0');
	wr32(t, o.version == 1 ? 0x77846676u : 0x4D54424Cu);
	f.append(t);
	return f;
}

} // namespace mfmt
