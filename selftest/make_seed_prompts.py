#!/usr/bin/env python3
"""make_seed_prompts.py <suffix> [outdir]: writes one task text per claimed property for the next round of seeded
changes (sub-agents get the property's text, a scratch worktree /tmp/seed-<Cxx><suffix>, and the list of mechanisms
used by earlier changes for that property, parsed from the rows of DESIGN.md section 13.4 - nothing about the checks).
Place each text as _seeded/TASK.md in a worktree made by tools/mkworktree.sh; afterwards selftest/confirm_seed.sh
<Cxx><suffix> and selftest/try_mutant.py seeded/<Cxx><suffix>/patch.diff <Cxx>."""
import json, os, re, sys, collections
V = os.path.dirname(os.path.dirname(os.path.abspath(__file__)))
suffix = sys.argv[1]; out = sys.argv[2] if len(sys.argv) > 2 else "/tmp/prompts"
os.makedirs(out, exist_ok=True)
props = {}
for l in open(os.path.join(V, "properties.jsonl")):
    p = json.loads(l); props[p["id"]] = p
na = {x["property_id"] for x in json.load(open(os.path.join(V, "MANIFEST.json")))["not_applicable"]}
prev = collections.defaultdict(list)
for l in open(os.path.join(V, "DESIGN.md")):
    m = re.match(r"\| (C\d\d)[a-z]? \| (C\d\d) \| (.*?) \| ", l)
    if m: prev[m.group(2)].append(m.group(3))
for c in sorted(props):
    if c in na: continue
    p = props[c]; wt = "/tmp/seed-%s%s" % (c, suffix)
    t = f"""You are helping to evaluate a verification harness for the open-source C library farsightsec/mtbl (immutable sorted-string-table files: block writer/reader with prefix compression and restart index, k-way merger, external sorter, fileset, thread pool). Your job is to play the part of a developer who introduces a subtle regression.

You have your own scratch git worktree of the library at {wt} (already configured; `make` builds it, `make check` runs its 15 tests; both work offline). Work ONLY inside {wt}. Do not read or touch /repo, /verif or any other directory. There is no network.

THE PROPERTY (a semantic guarantee that users of the library rely on):

Title: {p['title']}

Statement: {p['statement']}

Holds for: {p['quantifier']['text']}

Why the existing tests cannot settle it: {p['why_tests_cant']}

YOUR TASK: make a change to the library's source in {wt} that BREAKS this property, while
 (a) the library still compiles without new warnings,
 (b) all 15 existing tests still pass (`make check`),
 (c) the change looks like something a real developer could plausibly commit (an optimisation, a refactoring, a clean-up, a new fast path, a "harmless" simplification, a hardening gone wrong) - not sabotage with magic constants, not `if (key == "xyz")`,
 (d) the breakage needs something SPECIFIC to manifest - a particular interleaving, a fault or crash at a particular point, a multi-step sequence of operations, an unusual input or configuration, or two cooperating sites that each look fine alone - so that ordinary use (write a table, read it back, the usual happy path) does NOT expose it at once.

Earlier regressions injected for this same property used the mechanisms listed below. Find a DIFFERENT one: another code path, another trigger, preferably one that depends on a combination of circumstances (for example: two features that are each exercised alone but rarely together; an object reused after a particular earlier use; a caller that behaves legally but unlike the examples in the documentation; an environment detail such as the state of the file system, the descriptor, the process or the options at the moment of the call). Do not repeat or trivially vary any of these:
""" + "".join(" - " + x + "\n" for x in prev[c]) + f"""
DELIVERABLES, all in the directory {wt}/_seeded/ (create it):
 1. patch.diff  - `git diff` of your change to the library sources only (run from {wt}; must apply with `git apply` to a clean checkout; do not include _seeded/ or build products).
 2. demo.c (or demo.sh plus helper files) - a small self-contained demonstration that uses only the public API (mtbl.h) or the command-line tools built in {wt}/src, that exits 0 on the unchanged library and exits non-zero (with a short message saying what went wrong) on the changed library. It must be deterministic or, if the failure depends on thread timing, must make the failure very likely (say how).
 3. run_demo.sh - run from anywhere; it must cd to the worktree root ("$(dirname "$0")/.."), run `make -s` to rebuild the library, compile demo.c against the worktree's library (e.g. cc -O1 -g -I. -Imtbl -o _seeded/demo _seeded/demo.c -Lmtbl/.libs -lmtbl -Wl,-rpath,"$PWD/mtbl/.libs" [-lpthread]), run it, and exit with its exit code.
 4. meta.json - {{"property": "{c}", "summary": "<what the change does and why it breaks the property>", "needs": "<exactly what has to happen for the breakage to show; and what ordinary use does NOT show it>", "files_changed": [...], "tests_pass": true}}

Before you finish, verify yourself: (1) `git apply -R` to confirm the demo exits 0 on the unchanged tree, (2) with the change applied: `make` succeeds, `make check` shows 15 PASS and 0 FAIL, the demo exits non-zero. Leave the worktree with the change applied and the four files in _seeded/. In your final answer, give a 5-line summary. If after honest effort you cannot find a change that satisfies all conditions, say so rather than delivering something that fails (b) or (d)."""
    open(os.path.join(out, c + suffix + ".txt"), "w").write(t)
print("wrote prompts to", out)
