#!/usr/bin/env python3
"""Second opinion on the emulated scheduler: the C13/C14 plans are executed with the scheduler switched off
(MTBLSIM_REAL_THREADS=1: real libpthread mutexes/condvars/threads, the OS schedules).  Every functional oracle
must hold there too, nothing may hang, and in the tsan variant ThreadSanitizer (which now sees the real
synchronisation) must stay silent.  usage: realthreads.py [N]"""
import os, subprocess, sys, concurrent.futures as cf
V = os.path.dirname(os.path.dirname(os.path.abspath(__file__)))
N = int(sys.argv[1]) if len(sys.argv) > 1 else 2000
ENV = dict(os.environ, MTBLSIM_REAL_THREADS="1", MTBLSIM_TOOLS=os.path.join(V, "build/tools"))
def run(args):
    variant, prop, a, b = args
    try:
        p = subprocess.run([os.path.join(V, "build", variant, "mtblsim"), "run", "--engine", "sched", "--prop", prop, "--seed", "3", "--from", str(a), "--to", str(b)],
                           stdout=subprocess.PIPE, stderr=subprocess.PIPE, text=True, env=ENV, timeout=600)
    except subprocess.TimeoutExpired:
        return (variant, prop, a, b, "TIMEOUT (hang with real threads)", 0)
    lines = [l for l in p.stdout.splitlines() if l.startswith("RUN ")]
    bad = [l for l in lines if " st=ok " not in l]
    if p.returncode != 0 or bad or len(lines) != b - a:
        return (variant, prop, a, b, "rc=%d bad=%d lines=%d %s %s" % (p.returncode, len(bad), len(lines), (bad[:1] or [""])[0][:300], p.stderr[-600:]), len(lines))
    return (variant, prop, a, b, None, len(lines))
jobs = [(v, prop, a, min(a + 100, N)) for v, prop in (("plain", "C13"), ("tsan", "C14"), ("asan", "C13")) for a in range(0, N, 100)]
fails = 0; total = 0
with cf.ThreadPoolExecutor(max_workers=8) as ex:
    for v, prop, a, b, err, n in ex.map(run, jobs):
        total += n
        if err:
            fails += 1
            print("FAIL %s %s [%d,%d): %s" % (v, prop, a, b, err))
print("real-thread cross-check: %d plan executions, %d failing chunks" % (total, fails))
sys.exit(1 if fails else 0)
