#!/bin/sh
# confirm_seed.sh <Cxx> [srcdir]: take the deliverables of a sub-agent from /tmp/seed-<Cxx>/_seeded (or srcdir),
# store them under /verif/seeded/<Cxx>/, and confirm independently in a fresh scratch worktree that
#  (1) the demo passes without the change, (2) the change applies and builds, (3) the repo's 15 tests pass with it,
#  (4) the demo fails with it.  Prints CONFIRMED or REJECTED.
id="$1"; src="${2:-/tmp/seed-$id/_seeded}"; dst="/verif/seeded/$id"
[ -n "$3" ] && dst="/verif/seeded/$3"
mkdir -p "$dst"
cp "$src"/patch.diff "$src"/meta.json "$dst"/ 2>/dev/null
for f in "$src"/demo* "$src"/run_demo.sh "$src"/*.c "$src"/*.h "$src"/*.sh; do [ -f "$f" ] && case "$f" in *.o|*/demo) ;; *) cp "$f" "$dst"/ ;; esac; done
wt=/tmp/confirm-$id.$$
/verif/tools/mkworktree.sh $wt >/dev/null || exit 2
cd $wt || exit 2
mkdir -p _seeded; cp "$dst"/* _seeded/ 2>/dev/null
make >/dev/null 2>&1
sh _seeded/run_demo.sh >/tmp/confirm-$id.without.log 2>&1; r0=$?
git apply _seeded/patch.diff || { echo "REJECTED $id: patch does not apply"; cd /; /verif/tools/rmworktree.sh $wt; exit 1; }
make >/tmp/confirm-$id.build.log 2>&1 || { echo "REJECTED $id: does not build"; cd /; /verif/tools/rmworktree.sh $wt; exit 1; }
make check >/tmp/confirm-$id.check.log 2>&1
pass=$(grep -c "^PASS:" /tmp/confirm-$id.check.log); fail=$(grep -c "^FAIL:\|^ERROR:" /tmp/confirm-$id.check.log)
sh _seeded/run_demo.sh >/tmp/confirm-$id.with.log 2>&1; r1=$?
cd /; /verif/tools/rmworktree.sh $wt
echo "demo without change: exit $r0; repo tests with change: $pass pass / $fail fail; demo with change: exit $r1"
if [ "$r0" = 0 ] && [ "$r1" != 0 ] && [ "$pass" = 15 ] && [ "$fail" = 0 ]; then echo "CONFIRMED $id"; exit 0; fi
echo "REJECTED $id"; exit 1
