#!/usr/bin/env python3
"""Runs every benign change of selftest/benign/INDEX (or the named ones): the repository's tests must pass with it
and every named quick check must stay quiet (exit 0).  An alarm here is a false alarm of the machinery."""
import os, subprocess, sys
V = os.path.dirname(os.path.dirname(os.path.abspath(__file__)))
want = sys.argv[1:]
rows = []
for line in open(os.path.join(V, "selftest/benign/INDEX")):
    name, props = line.split()
    if want and not any(w in name for w in want): continue
    r = subprocess.run([os.path.join(V, "selftest/try_mutant.py"), "--tests", "--expect-clean", os.path.join(V, "selftest/benign", name + ".diff")] + props.split(","),
                       stdout=subprocess.PIPE, stderr=subprocess.STDOUT, text=True)
    verdict = {0: "QUIET", 1: "ALARM", 2: "SETUP"}.get(r.returncode, "?")
    detail = [l.strip() for l in r.stdout.splitlines() if l.startswith(("check ", "RESULT", "SETUP", "repo test"))]
    print("%-6s %-40s %s" % (verdict, name, " | ".join(detail)), flush=True)
    if verdict != "QUIET":
        print(r.stdout[-2500:], flush=True)
    rows.append((name, verdict))
print("SUMMARY quiet=%d alarm=%d setup=%d" % (sum(v == "QUIET" for _, v in rows), sum(v == "ALARM" for _, v in rows), sum(v == "SETUP" for _, v in rows)))
