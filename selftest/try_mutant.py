#!/usr/bin/env python3
"""try_mutant.py [--tests] [--tier quick] <patch.diff> <Cxx> [<Cxx>...]
Applies the patch to a scratch worktree of /repo (never to /repo itself), optionally runs the
repository's own test suite there, then runs the named checks against the worktree
(MTBL_SRC=<worktree>, separate build directory) and reports which ones detect it.
exit 0 = every named check reported a VIOLATION; 1 = at least one missed; 2 = setup problem."""
import os, subprocess, sys, shutil, time
V = os.path.dirname(os.path.dirname(os.path.abspath(__file__)))
args = sys.argv[1:]
tests = "--tests" in args
if tests: args.remove("--tests")
clean = "--expect-clean" in args	# benign change: every named check must exit 0
if clean: args.remove("--expect-clean")
tier = "quick"
if "--tier" in args:
    i = args.index("--tier"); tier = args[i + 1]; del args[i:i + 2]
patch, props = os.path.abspath(args[0]), args[1:]
wt = "/tmp/mtbl-mut.%d" % os.getpid()
bd = "/tmp/mtbl-mut-build.%d" % os.getpid()
rc = 2
try:
    subprocess.run([os.path.join(V, "tools/mkworktree.sh"), wt], check=True, stdout=subprocess.DEVNULL)
    r = subprocess.run(["git", "-C", wt, "apply", patch], stderr=subprocess.PIPE, text=True)
    if r.returncode != 0:
        print("SETUP-ERROR patch does not apply:", r.stderr.strip()); sys.exit(2)
    if tests:
        r = subprocess.run(["make", "-C", wt, "check"], stdout=subprocess.PIPE, stderr=subprocess.STDOUT, text=True)
        ok = "# FAIL:  0" in r.stdout and "# ERROR: 0" in r.stdout and "# PASS:  15" in r.stdout
        print("repo test suite with the change:", "15/15 pass" if ok else "NOT all passing")
        if not ok:
            print(r.stdout[-1500:]); sys.exit(2)
    missed = []
    for p in props:
        env = dict(os.environ, MTBL_SRC=wt, VERIF_BUILD=bd, VERIF_EVIDENCE_DIR=bd + "/evidence", VERIF_REPLAY_DIR=bd + "/replays")
        t0 = time.time()
        r = subprocess.run([os.path.join(V, "bin/check"), p, tier], stdout=subprocess.PIPE, stderr=subprocess.STDOUT, text=True, env=env)
        lines = [l for l in r.stdout.splitlines() if l.startswith(("VIOLATION", "  class=", "INFRA", "KNOWN", p + " "))]
        print("check %s %s -> exit %d in %.0fs" % (p, tier, r.returncode, time.time() - t0))
        for l in lines[:8]: print("   ", l[:300])
        if (r.returncode != 0) if clean else (r.returncode != 1): missed.append(p)
        if clean and r.returncode != 0:
            print(r.stdout[-1500:])
    rc = 1 if missed else 0
    if clean: print("RESULT", os.path.basename(patch), "no alarm from any named check" if not missed else "ALARM (or failure) from " + ",".join(missed))
    else: print("RESULT", os.path.basename(os.path.dirname(patch)) or patch, "caught by all named checks" if not missed else "MISSED by " + ",".join(missed))
finally:
    subprocess.run([os.path.join(V, "tools/rmworktree.sh"), wt])
    shutil.rmtree(bd, ignore_errors=True)
sys.exit(rc)
