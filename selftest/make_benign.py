#!/usr/bin/env python3
"""Generates selftest/benign/<name>.diff: changes to /repo under which every property still HOLDS (refactorings,
hardening, rewording, other legal implementation choices).  selftest/run_benign.py requires that no named check
raises an alarm on them: they probe the checks for assumptions that the properties do not make."""
import os, subprocess, sys, tempfile, shutil
V = os.path.dirname(os.path.dirname(os.path.abspath(__file__)))
B = [
 # name, checks that must stay quiet, [(file, old, new), ...]
 ("b01-sorter-mkostemp-cloexec", ["C06", "C18", "C13"], [("mtbl/sorter.c",
   "\tint fd = mkstemp((char *) ubuf_data(tmp_fname));", "\tint fd = mkostemp((char *) ubuf_data(tmp_fname), O_CLOEXEC);"),
   ("mtbl/sorter.c", "#include \"mtbl-private.h\"", "#define _GNU_SOURCE 1\n#include <fcntl.h>\n#include <stdlib.h>\n#include \"mtbl-private.h\"")]),
 ("b02-pool-routines-renamed", ["C13", "C14", "C06", "C01"], [("mtbl/threadpool.c", "thread_worker", "pool_thread_main"), ("mtbl/threadpool.c", "result_worker", "collector_main")]),
 ("b03-write-error-reworded", ["C20"], [("mtbl/writer.c",
   "\t\t\tfprintf(stderr, \"%s: write() failed: %s\\n\", __func__,\n\t\t\t\tstrerror(errno));",
   "\t\t\tfprintf(stderr, \"mtbl: cannot write table (%s), giving up\\n\",\n\t\t\t\tstrerror(errno));")]),
 ("b04-zstd-levels-cached-with-once", ["C14", "C13", "C01"], [("mtbl/compression.c",
   "mtbl_res\n_mtbl_compress_zstd(",
   "#include <pthread.h>\nstatic pthread_once_t zstd_once = PTHREAD_ONCE_INIT;\nstatic pthread_mutex_t zstd_stat_lock = PTHREAD_MUTEX_INITIALIZER;\nstatic unsigned long zstd_blocks;\nstatic int zstd_min_cached, zstd_max_cached;\nstatic void zstd_levels_init(void)\n{\n#if ZSTD_VERSION_NUMBER >= 10400\n\tzstd_min_cached = ZSTD_minCLevel();\n#else\n\tzstd_min_cached = 1;\n#endif\n\tzstd_max_cached = ZSTD_maxCLevel();\n}\n\nmtbl_res\n_mtbl_compress_zstd("),
   ("mtbl/compression.c",
   "\tif (compression_level < minlevel)\n\t\tcompression_level = minlevel;\n\telse if (compression_level > ZSTD_maxCLevel())\n\t\tcompression_level = ZSTD_maxCLevel();",
   "\tpthread_once(&zstd_once, zstd_levels_init);\n\tpthread_mutex_lock(&zstd_stat_lock);\n\tzstd_blocks++;\n\tpthread_mutex_unlock(&zstd_stat_lock);\n\tminlevel = zstd_min_cached;\n\tif (compression_level < minlevel)\n\t\tcompression_level = minlevel;\n\telse if (compression_level > zstd_max_cached)\n\t\tcompression_level = zstd_max_cached;")]),
 ("b05-fileset-realtime-clock", ["C07"], [("mtbl/fileset.c", "static const clockid_t clock = CLOCK_MONOTONIC;", "static const clockid_t clock = CLOCK_REALTIME;")]),
 ("b06-info-labels-reworded", ["C10"], [("src/mtbl_info.c", "printf(\"entry count:           %'\" PRIu64 \"\\n\", count_entries);", "printf(\"entries:               %'\" PRIu64 \"\\n\", count_entries);"),
   ("src/mtbl_info.c", "printf(\"key bytes:             %'\" PRIu64 \"\\n\", bytes_keys);", "printf(\"bytes in keys:         %'\" PRIu64 \"\\n\", bytes_keys);")]),
 ("b07-verify-tool-says-ok-differently", ["C12"], [("src/mtbl_verify.c", "printf(\"%s: OK\\n\", fname);", "printf(\"%s: verified, no errors\\n\", fname);")]),
 ("b08-reader-keeps-scratch-buffer", ["C18", "C02", "C14"], [("mtbl/reader.c", "\tmetadata_offset = r->len_data - MTBL_METADATA_SIZE;", "\tr->scratch = my_malloc(4096);\n\tmetadata_offset = r->len_data - MTBL_METADATA_SIZE;"),
   ("mtbl/reader.c", "struct mtbl_reader {", "struct mtbl_reader {\n\tvoid\t\t\t\t*scratch;"),
   ("mtbl/reader.c", "\t\tmunmap((*r)->data, (*r)->len_data);", "\t\tmunmap((*r)->data, (*r)->len_data);\n\t\tfree((*r)->scratch);")]),
 ("b09-writer-lseek-checked", ["C18", "C01", "C09"], [("mtbl/writer.c", "\tw->last_offset = lseek(fd, 0, SEEK_CUR);", "\tw->last_offset = lseek(fd, 0, SEEK_CUR);\n\tif (w->last_offset == (uint64_t)-1)\n\t\tw->last_offset = 0;\t/* pipes and sockets: offsets count from the first byte written */")]),
 ("b10-sorter-chunks-lz4", ["C06", "C18"], [("mtbl/sorter.c", "MTBL_COMPRESSION_SNAPPY", "MTBL_COMPRESSION_LZ4")]),
 ("b12-trailer-written-with-pwrite", ["C20", "C01", "C18", "C09"], [("mtbl/writer.c",
   "\t_write_all(w->fd, tbuf, sizeof(tbuf));",
   "\t{\n\t\t/* the trailer goes to a known offset */\n\t\tsize_t done = 0;\n\t\toff_t at = lseek(w->fd, 0, SEEK_CUR);\n\t\twhile (at != (off_t)-1 && done < sizeof(tbuf)) {\n\t\t\tssize_t n = pwrite(w->fd, tbuf + done, sizeof(tbuf) - done, at + (off_t)done);\n\t\t\tif (n < 0 && errno == EINTR)\n\t\t\t\tcontinue;\n\t\t\tif (n <= 0) {\n\t\t\t\tfprintf(stderr, \"%s: pwrite() failed: %s\\n\", __func__, strerror(errno));\n\t\t\t\tabort();\n\t\t\t}\n\t\t\tdone += (size_t)n;\n\t\t}\n\t\tif (done == sizeof(tbuf))\n\t\t\t(void) lseek(w->fd, at + (off_t)done, SEEK_SET);\n\t\telse\n\t\t\t_write_all(w->fd, tbuf + done, sizeof(tbuf) - done);\n\t}")]),
 ("b13-sorter-template-renamed", ["C06", "C18"], [("mtbl/sorter.c", "\"/.mtbl.%ld.XXXXXX\"", "\"/mtbl-sort-%ld-XXXXXX\"")]),
 ("b14-pool-broadcasts", ["C13", "C14", "C06"], [("mtbl/threadpool.c", "pthread_cond_signal(&thr->pool->c);", "pthread_cond_broadcast(&thr->pool->c);"), ("mtbl/threadpool.c", "\t\t\tpthread_cond_signal(&me->c);", "\t\t\tpthread_cond_broadcast(&me->c);")]),
 ("b15-builder-starts-smaller", ["C01", "C09", "C10"], [("mtbl/block_builder.c", "b->buf = ubuf_init(65536);", "b->buf = ubuf_init(4096);")]),
 ("b16-new-source-file", ["C01", "C13"], [("Makefile.am", "\tmtbl/writer.c\n", "\tmtbl/writer.c \\\n\tmtbl/wutil.c\n"),
   ("mtbl/writer.c", "\tw->fd = fd;\n", "\tw->fd = fd;\n\t{ extern void _mtbl_wutil_touch(int); _mtbl_wutil_touch(fd); }\n"),
   ("mtbl/wutil.c", None, "#include <pthread.h>\nstatic pthread_mutex_t wutil_lock = PTHREAD_MUTEX_INITIALIZER;\nstatic unsigned long wutil_writers;\nvoid _mtbl_wutil_touch(int fd);\nvoid _mtbl_wutil_touch(int fd)\n{\n\t(void) fd; pthread_mutex_lock(&wutil_lock); wutil_writers++; pthread_mutex_unlock(&wutil_lock);\n}\n")]),
 ("b17-reader-map-shared-populate", ["C19", "C18", "C02"], [("mtbl/reader.c", "PROT_READ, MAP_PRIVATE, fd, 0);", "PROT_READ, MAP_SHARED, fd, 0);")]),
 ("b18-index-keys-not-shortened", ["C09", "C02", "C03", "C08", "C12"], [("mtbl/writer.c", "\t\tbytes_shortest_separator(w->last_key, key, len_key);\n", "")]),
 ("b22-reload_now-is-lazy", ["C07"], [("mtbl/fileset.c",
   "\tif (f->shared_fs->n_iters > 0) {\n\t\tf->shared_fs->reload_needed = true;\n\t\treturn;\n\t}\n",
   "\tif (f->shared_fs->n_iters >= 0) {\n\t\t/* the reload is carried out by the next source operation */\n\t\tf->shared_fs->reload_needed = true;\n\t\treturn;\n\t}\n")]),
 ("b24-process-global-one-time-allocation", ["C18"], [("mtbl/reader.c", "\tr->scratch = my_malloc(4096);\n", "")] if False else [("mtbl/reader.c", "\tmetadata_offset = r->len_data - MTBL_METADATA_SIZE;", "\t{\n\t\tstatic uint8_t *once_table;\t/* built on first use, lives as long as the process */\n\t\tif (once_table == NULL) {\n\t\t\tonce_table = my_malloc(65536);\n\t\t\tmemset(once_table, 0, 65536);\n\t\t}\n\t}\n\tmetadata_offset = r->len_data - MTBL_METADATA_SIZE;")]),
 ("b25-sorter-entry-64bit-lengths", ["C06"], [("mtbl/sorter.c", "struct entry {\n\tuint32_t\t\t\tlen_key;\n\tuint32_t\t\t\tlen_val;", "struct entry {\n\tuint64_t\t\t\tlen_key;\n\tuint64_t\t\t\tlen_val;")]),
 ("b26-sorter-limit-counts-payload-only", ["C06"], [("mtbl/sorter.c", "\tif (s->entry_bytes + entry_vec_bytes(s->vec) >= s->opt.max_memory)", "\t/* the limit is on key and value bytes, as documented */\n\tif (s->entry_bytes - entry_vec_size(s->vec) * sizeof(struct entry) >= s->opt.max_memory)")]),
 ("b11-merger-extra-heapify", ["C04", "C05"], [("mtbl/merger.c", "\t\t\tif (res == mtbl_res_success)\n\t\t\t\theap_replace(it->h, e);", "\t\t\tif (res == mtbl_res_success) {\n\t\t\t\theap_replace(it->h, e);\n\t\t\t\theap_heapify(it->h);\n\t\t\t}")]),
]

def main():
    outdir = os.path.join(V, "selftest", "benign")
    os.makedirs(outdir, exist_ok=True)
    idx = []
    for name, props, edits in B:
        tmp = tempfile.mkdtemp()
        files = {}
        ok = True
        for f, old, new in edits:
            src = files.get(f) or (open(os.path.join("/repo", f)).read() if os.path.exists(os.path.join("/repo", f)) else "")
            if f not in files:
                os.makedirs(os.path.join(tmp, "a", os.path.dirname(f)), exist_ok=True)
                os.makedirs(os.path.join(tmp, "b", os.path.dirname(f)), exist_ok=True)
                if os.path.exists(os.path.join("/repo", f)): open(os.path.join(tmp, "a", f), "w").write(src)
            if old is None:
                files[f] = new
                continue
            if src.count(old) < 1:
                print("SKIP %s: anchor not found in %s: %r" % (name, f, old[:50])); ok = False; break
            files[f] = src.replace(old, new)
        if ok:
            d = ""
            for f, txt in files.items():
                open(os.path.join(tmp, "b", f), "w").write(txt)
                d += subprocess.run(["diff", "-u", "-N", os.path.join("a", f), os.path.join("b", f)], cwd=tmp, stdout=subprocess.PIPE, text=True).stdout
            open(os.path.join(outdir, name + ".diff"), "w").write(d)
            idx.append("%s %s" % (name, ",".join(props)))
        shutil.rmtree(tmp)
    # hand-made changes kept as static diffs (not generated from the table above)
    idx.append("b27-index-verified-on-first-use C12,C19,C02")
    open(os.path.join(outdir, "INDEX"), "w").write("\n".join(idx) + "\n")
    print("wrote %d benign changes" % len(idx))
main()
