#!/usr/bin/env python3
"""record_seed.py <dir-id> <prop> <caught: yes|no|partly> <which check/site> [note]
adds what was run and the outcome to seeded/<dir-id>/meta.json"""
import json, os, sys
V = os.path.dirname(os.path.dirname(os.path.abspath(__file__)))
d, prop, caught, how = sys.argv[1:5]
note = sys.argv[5] if len(sys.argv) > 5 else ""
p = os.path.join(V, "seeded", d, "meta.json")
m = json.load(open(p)) if os.path.exists(p) else {}
m["property"] = prop
m["confirmed"] = dict(
    how="selftest/confirm_seed.sh in a fresh scratch worktree of /repo HEAD: demo without the change exits 0; patch applies and builds; make check = 15 pass / 0 fail with the change; demo with the change exits non-zero",
    by="main session (not the authoring sub-agent)")
m["verif_check"] = dict(ran="selftest/try_mutant.py seeded/%s/patch.diff %s  (MTBL_SRC=<scratch worktree with the patch>, bin/check %s quick)" % (d, prop, prop),
                        caught=caught, how=how, note=note)
json.dump(m, open(p, "w"), indent=1)
print("recorded", d)
