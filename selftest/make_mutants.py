#!/usr/bin/env python3
"""Generates selftest/mutants/<name>.diff from (file, old, new) edits against /repo HEAD.
Each mutant is a realistic change that compiles, passes the repo's 15 tests and breaks a property."""
import os, subprocess, sys, tempfile, shutil
V = os.path.dirname(os.path.dirname(os.path.abspath(__file__)))
M = [
 # name, props expected to catch, file, old, new
 ("m01-builder-shared-off-by-one", ["C09"], "mtbl/block_builder.c",
  "while ((shared < min_length) && (ubuf_value(b->last_key, shared) == key[shared]))",
  "while ((shared + 1 < min_length) && (ubuf_value(b->last_key, shared) == key[shared]))"),
 ("m41-restart-points-always-32bit", ["C11"], "mtbl/block.c",
  "\tif (bi->restarts > UINT32_MAX)\n\t\treturn (mtbl_fixed_decode64(bi->data + bi->restarts + idx * sizeof(uint64_t)));", "\tif (bi->restarts > UINT32_MAX && idx == 0)\n\t\treturn (mtbl_fixed_decode64(bi->data + bi->restarts + idx * sizeof(uint64_t)));"),
 ("m42-reader-ignores-mmap-failure", ["C18"], "mtbl/reader.c",
  "\tif (r->data == MAP_FAILED) {\n\t\tfree(r);\n\t\treturn (NULL);\n\t}", "\tif (r->data == NULL) {\n\t\tfree(r);\n\t\treturn (NULL);\n\t}"),
 ("m43-reader-leaks-on-mmap-failure", ["C18"], "mtbl/reader.c",
  "\tif (r->data == MAP_FAILED) {\n\t\tfree(r);\n\t\treturn (NULL);\n\t}", "\tif (r->data == MAP_FAILED)\n\t\treturn (NULL);"),
 ("m44-source-free-callback-skipped", ["C04", "C18"], "mtbl/source.c",
  "\t\tif ((*s)->source_free != NULL)\n\t\t\t(*s)->source_free((*s)->clos);", "\t\tif ((*s)->source_free != NULL && (*s)->clos == NULL)\n\t\t\t(*s)->source_free((*s)->clos);"),
 ("m02-decode-entry-fastpath-le128", ["C01"], "mtbl/block.c",
  "if ((*shared | *non_shared | *value_length) < 128) {", "if ((*shared | *non_shared | *value_length) <= 128) {"),
 ("m05-prefix-predicate-lt", ["C02"], "mtbl/reader.c",
  "if (!(ubuf_size(it->k) <= *len_key &&", "if (!(ubuf_size(it->k) < *len_key &&"),
 ("m06-range-bound-ge", ["C02"], "mtbl/reader.c",
  "if (bytes_compare(*key, *len_key, ubuf_data(it->k), ubuf_size(it->k)) > 0)\n\t\t\tit->valid = false;\n\t\tbreak;\n\tdefault:",
  "if (bytes_compare(*key, *len_key, ubuf_data(it->k), ubuf_size(it->k)) >= 0)\n\t\t\tit->valid = false;\n\t\tbreak;\n\tdefault:"),
 ("m07-gate-signed-compare", ["C08"], "mtbl/mtbl-private.h",
  "int ret = memcmp(a, b, len);", "int ret = strncmp((const char *)a, (const char *)b, len);"),
 ("m08-gate-separator-not-restored", ["C08"], "mtbl/writer.c",
  "\tubuf_reset(w->last_key);\n\tubuf_append(w->last_key, key, len_key);\n\n\tw->m.count_entries += 1;",
  "\tif (estimated_block_size < w->opt.block_size) {\n\t\tubuf_reset(w->last_key);\n\t\tubuf_append(w->last_key, key, len_key);\n\t}\n\n\tw->m.count_entries += 1;"),
 ("m09-writer-init-no-excl", ["C08"], "mtbl/writer.c", "O_WRONLY | O_CREAT | O_TRUNC | O_EXCL", "O_WRONLY | O_CREAT | O_TRUNC"),
 ("m10-crc-over-uncompressed", ["C09", "C12"], "mtbl/writer.c",
  "\tif (b->comp_type != MTBL_COMPRESSION_NONE) {\n\t\tfree(b->data);\n\t\tb->data = tmp.data;\n\t\tb->len_data = tmp.len_data;\n\t}\n\n\tb->crc = htole32(mtbl_crc32c(b->data, b->len_data));",
  "\tb->crc = htole32(mtbl_crc32c(b->data, b->len_data));\n\tif (b->comp_type != MTBL_COMPRESSION_NONE) {\n\t\tfree(b->data);\n\t\tb->data = tmp.data;\n\t\tb->len_data = tmp.len_data;\n\t}\n"),
 ("m12-stats-data-bytes-unframed", ["C10"], "mtbl/writer.c",
  "w->m.bytes_data_blocks += bytes_written;", "w->m.bytes_data_blocks += b->len_data;"),
 ("m13-stats-bytes-values-on-refusal", ["C10"], "mtbl/writer.c",
  "\t\t{\n\t\t\treturn (mtbl_res_failure);\n\t\t}", "\t\t{\n\t\t\tw->m.bytes_values += len_val;\n\t\t\treturn (mtbl_res_failure);\n\t\t}"),
 ("m15-verify-skips-get-path", ["C12"], "mtbl/reader.c",
  "\tblock_iter_seek(it->index_iter, key, len_key);\n\tit->b = get_block_at_index(r, it->index_iter, &it->block_offset);",
  "\tblock_iter_seek(it->index_iter, key, len_key);\n\tbool vc = r->opt.verify_checksums;\n\tr->opt.verify_checksums = false;\n\tit->b = get_block_at_index(r, it->index_iter, &it->block_offset);\n\tr->opt.verify_checksums = vc;"),
 ("m16-verify-tool-skips-last-block", ["C12"], "src/mtbl_verify.c",
  "for (uint64_t block = 1; block <= count_data_blocks; block++) {", "for (uint64_t block = 1; block < count_data_blocks || block == 1; block++) {"),
 ("m17-pool-ptail-not-reset", ["C13"], "mtbl/threadpool.c",
  "\t\tif (rq->head == NULL)\n\t\t\trq->ptail = &rq->head;\n", "\n"),
 ("m18-pool-while-running-if", ["C13", "C14"], "mtbl/threadpool.c",
  "\twhile(thr->running)\n\t\tpthread_cond_wait(&thr->c, &thr->m);", "\tif (thr->running)\n\t\tpthread_cond_wait(&thr->c, &thr->m);"),
 ("m19-pool-max-off-by-one", ["C13"], "mtbl/threadpool.c",
  "while (pool->head == NULL && pool->count == pool->max) {", "while (pool->head == NULL && pool->count > pool->max) {"),
 ("m20-writer-unordered-dispatch", ["C13", "C01"], "mtbl/writer.c",
  "threadpool_dispatch(w->pool, w->rhandler, true,\t/* ordered */", "threadpool_dispatch(w->pool, w->rhandler, false,\t/* ordered */"),
 ("m21-race-nthreads-before-lock", ["C14"], "mtbl/threadpool.c",
  "\tpthread_mutex_lock(&rq->m);\n\tassert(!rq->finished);\n\trq->nthreads++;", "\trq->nthreads++;\n\tpthread_mutex_lock(&rq->m);\n\tassert(!rq->finished);"),
 ("m22-race-stat-counter-in-worker", ["C14"], "mtbl/writer.c",
  "static void *\n_compress_block_wrapper(void *block)\n{\n\tif (block == NULL)\n\t\treturn NULL;\n",
  "static uint64_t compressed_blocks;\nstatic void *\n_compress_block_wrapper(void *block)\n{\n\tif (block == NULL)\n\t\treturn NULL;\n\tcompressed_blocks++;\n"),
 ("m23-write-all-buf-not-advanced", ["C20"], "mtbl/writer.c", "\t\tbuf += bytes_written;\n", "\n"),
 ("m24-write-all-eintr-is-progress", ["C20"], "mtbl/writer.c",
  "\t\tif (bytes_written < 0 && errno == EINTR)\n\t\t\tcontinue;", "\t\tif (bytes_written < 0 && errno == EINTR)\n\t\t\tbytes_written = 1;"),
 ("m25-write-error-swallowed", ["C20"], "mtbl/writer.c",
  "\t\t\tassert(bytes_written > 0);\n\t\t}", "\t\t\tif (errno != EIO) return;\n\t\t\tassert(bytes_written > 0);\n\t\t}"),
 ("m26-sorter-spill-gt", ["C06"], "mtbl/sorter.c",
  "if (s->entry_bytes + entry_vec_bytes(s->vec) >= s->opt.max_memory)", "if (s->entry_bytes / 4 + entry_vec_bytes(s->vec) / 4 >= s->opt.max_memory)"),
 ("m27-sorter-late-add-accepted", ["C06"], "mtbl/sorter.c",
  "\tmtbl_res res = mtbl_res_success;\n\tif (s->iterating)\n\t\treturn (mtbl_res_failure);\n\tassert(len_key <= UINT_MAX);",
  "\tmtbl_res res = mtbl_res_success;\n\tif (s->iterating && entry_vec_size(s->vec) > 0)\n\t\treturn (mtbl_res_failure);\n\tassert(len_key <= UINT_MAX);"),
 ("m28-sorter-tmp-in-cwd", ["C06"], "mtbl/sorter.c",
  "sprintf(template, \"/.mtbl.%ld.XXXXXX\", (long)getpid());", "sprintf(template, \"/../.mtbl.%ld.XXXXXX\", (long)getpid());"),
 ("m29-merger-heap-replace-skipped-on-merge", ["C04"], "mtbl/merger.c",
  "\t\t\tfree(merged_val);\n\t\t\tres = entry_fill(e);\n\t\t\tif (res == mtbl_res_success)\n\t\t\t\theap_replace(it->h, e);",
  "\t\t\tfree(merged_val);\n\t\t\tres = entry_fill(e);\n\t\t\tif (res == mtbl_res_success && heap_size(it->h) > 2)\n\t\t\t\theap_replace(it->h, e);"),
 ("m30-merger-failure-swallowed", ["C04"], "mtbl/merger.c",
  "\t\t\tif (merged_val == NULL)\n\t\t\t\treturn (mtbl_res_failure);", "\t\t\tif (merged_val == NULL)\n\t\t\t\tbreak;"),
 ("m31-fileset-never-reload-by-time", ["C07"], "mtbl/fileset.c",
  "if (f->shared_fs->reload_needed || (now.tv_sec - f->shared_fs->fs_last.tv_sec > f->reload_interval)) {",
  "if (f->shared_fs->reload_needed || (now.tv_sec - f->shared_fs->fs_last.tv_sec > (time_t)f->reload_interval * 1000)) {"),
 ("m32-fileset-reload-with-open-iters", ["C07"], "mtbl/fileset.c",
  "\t/* if there are any open iterators under this fileset, do not reload now */\n\tif (f->shared_fs->n_iters > 0)\n\t\treturn;",
  "\t/* if there are any open iterators under this fileset, do not reload now */\n\tif (f->shared_fs->n_iters > 1)\n\t\treturn;"),
 ("m33-fileset-deferred-reload_now-forgotten", ["C07"], "mtbl/fileset.c",
  "\tif (f->shared_fs->n_iters > 0) {\n\t\tf->shared_fs->reload_needed = true;\n\t\treturn;\n\t}", "\tif (f->shared_fs->n_iters > 0) {\n\t\treturn;\n\t}"),
 ("m34-reader-leaks-fd-on-bad-magic", ["C18"], "mtbl/reader.c",
  "\tr = mtbl_reader_init_fd(fd, opt);\n\tclose(fd);\n\n\treturn (r);", "\tr = mtbl_reader_init_fd(fd, opt);\n\tif (r != NULL)\n\t\tclose(fd);\n\n\treturn (r);"),
 ("m35-merger-iter-leaks-cur-val", ["C18"], "mtbl/merger.c", "\t\tubuf_destroy(&it->cur_key);\n\t\tubuf_destroy(&it->cur_val);", "\t\tubuf_destroy(&it->cur_key);"),
 ("m36-reader-no-munmap-on-bad-offset", ["C18"], "mtbl/reader.c",
  "\t    (end < r->m.index_block_offset)) {  /* offset causes overflow */\n\t\tmtbl_reader_destroy(&r);\n\t\treturn (NULL);",
  "\t    (end < r->m.index_block_offset)) {  /* offset causes overflow */\n\t\tfree(r);\n\t\treturn (NULL);"),
]

def main():
    outdir = os.path.join(V, "selftest", "mutants")
    os.makedirs(outdir, exist_ok=True)
    idx = []
    for name, props, f, old, new in M:
        src = open(os.path.join("/repo", f)).read()
        if src.count(old) != 1:
            print("SKIP %s: anchor found %d times in %s" % (name, src.count(old), f)); continue
        tmp = tempfile.mkdtemp()
        os.makedirs(os.path.join(tmp, "a", os.path.dirname(f)), exist_ok=True)
        os.makedirs(os.path.join(tmp, "b", os.path.dirname(f)), exist_ok=True)
        open(os.path.join(tmp, "a", f), "w").write(src)
        open(os.path.join(tmp, "b", f), "w").write(src.replace(old, new))
        d = subprocess.run(["diff", "-u", os.path.join("a", f), os.path.join("b", f)], cwd=tmp, stdout=subprocess.PIPE, text=True).stdout
        open(os.path.join(outdir, name + ".diff"), "w").write(d)
        shutil.rmtree(tmp)
        idx.append("%s %s" % (name, ",".join(props)))
    open(os.path.join(outdir, "INDEX"), "w").write("\n".join(idx) + "\n")
    print("wrote %d mutants" % len(idx))
main()
