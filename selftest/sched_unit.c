/* Unit test of the scheduler's less-used entry points (static initialisers taken over and given back,
 * trylock, timedwait, once, detach) and of verdicts; run by selftest/sched_unit.sh over many seeds. */
#define _GNU_SOURCE
#include "../sim/simsched.h"
#include <errno.h>
#include <stdio.h>
#include <stdlib.h>
#include <string.h>

static pthread_mutex_t M = PTHREAD_MUTEX_INITIALIZER;
static pthread_cond_t C = PTHREAD_COND_INITIALIZER;
static pthread_once_t O = PTHREAD_ONCE_INIT;
static int once_runs, counter, flag, trybusy, timeouts, lost_mode;

static void once_fn(void) { once_runs++; sim_yield(); }

static void *worker(void *a)
{
	(void)a;
	sim_pthread_once(&O, once_fn);
	for (int i = 0; i < 5; i++) {
		if (sim_pthread_mutex_trylock(&M) == EBUSY) { trybusy++; sim_pthread_mutex_lock(&M); }
		int v = counter; sim_yield(); counter = v + 1;
		sim_pthread_mutex_unlock(&M);
	}
	return NULL;
}
static void *waiter(void *a)
{
	(void)a;
	struct timespec ts = { 0, 0 };
	sim_pthread_mutex_lock(&M);
	while (!flag)
		if (sim_pthread_cond_timedwait(&C, &M, &ts) == ETIMEDOUT) { timeouts++; if (lost_mode) break; }
	sim_pthread_mutex_unlock(&M);
	return NULL;
}
static void *setter(void *a)
{
	(void)a;
	if (lost_mode) return NULL;	/* nobody will ever signal: only the timeout can end the wait */
	sim_pthread_mutex_lock(&M); flag = 1; sim_pthread_cond_signal(&C); sim_pthread_mutex_unlock(&M);
	return NULL;
}

int main(int argc, char **argv)
{
	uint64_t seed = argc > 1 ? strtoull(argv[1], 0, 0) : 1;
	lost_mode = argc > 2;
	struct sim_sched_cfg c; memset(&c, 0, sizeof c);
	c.seed = seed; c.strategy = (int)(seed % SIM_STRAT_N); c.pct_depth = 3; c.quantum = 3; c.spurious_pm = seed % 3 ? 20 : 0;
	c.step_budget = 100000; c.expected_steps = 200;
	sim_sched_begin(&c);
	pthread_t t[4], w, s, d;
	for (int i = 0; i < 4; i++) sim_pthread_create(&t[i], NULL, worker, NULL);
	sim_pthread_create(&w, NULL, waiter, NULL);
	sim_pthread_create(&s, NULL, setter, NULL);
	sim_pthread_create(&d, NULL, setter, NULL);
	sim_pthread_detach(d);
	for (int i = 0; i < 4; i++) sim_pthread_join(t[i], NULL);
	sim_pthread_join(w, NULL);
	sim_pthread_join(s, NULL);
	/* the detached thread must have finished before the run ends */
	static pthread_cond_t C2 = PTHREAD_COND_INITIALIZER;
	struct timespec ts = { 0, 0 };
	sim_pthread_mutex_lock(&M);
	for (int i = 0; i < 20; i++) sim_pthread_cond_timedwait(&C2, &M, &ts);	/* blocks until nothing else can run */
	sim_pthread_mutex_unlock(&M);
	struct sim_sched_stats st;
	sim_sched_end(&st);
	int bad = 0;
	if (once_runs != 1) { printf("once ran %d times\n", once_runs); bad = 1; }
	if (counter != 20) { printf("counter %d\n", counter); bad = 1; }
	if (st.unjoined) { printf("unjoined %d\n", st.unjoined); bad = 1; }
	if (lost_mode && timeouts < 1) { printf("no timeout in lost mode\n"); bad = 1; }
	static const pthread_mutex_t ZM = PTHREAD_MUTEX_INITIALIZER;
	static const pthread_cond_t ZC = PTHREAD_COND_INITIALIZER;
	if (memcmp(&M, &ZM, sizeof M) || memcmp(&C, &ZC, sizeof C)) { printf("adopted objects not given back\n"); bad = 1; }
	/* and the real library can use them afterwards */
	if (pthread_mutex_lock(&M) || pthread_mutex_unlock(&M) || pthread_cond_signal(&C)) { printf("real use failed\n"); bad = 1; }
	printf("seed=%llu steps=%llu hash=%016llx trybusy=%d timeouts=%d %s\n", (unsigned long long)seed, (unsigned long long)st.steps,
	       (unsigned long long)st.choices_hash, trybusy, timeouts, bad ? "FAIL" : "ok");
	return bad;
}
