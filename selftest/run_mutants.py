#!/usr/bin/env python3
"""Runs every mutant of selftest/mutants/INDEX (or the named ones) through try_mutant.py --tests and
prints a table: caught / missed / does-not-pass-the-repo-tests."""
import os, subprocess, sys
V = os.path.dirname(os.path.dirname(os.path.abspath(__file__)))
want = sys.argv[1:]
rows = []
for line in open(os.path.join(V, "selftest/mutants/INDEX")):
    name, props = line.split()
    if want and not any(w in name for w in want): continue
    r = subprocess.run([os.path.join(V, "selftest/try_mutant.py"), "--tests", os.path.join(V, "selftest/mutants", name + ".diff")] + props.split(","),
                       stdout=subprocess.PIPE, stderr=subprocess.STDOUT, text=True)
    verdict = {0: "CAUGHT", 1: "MISSED", 2: "SETUP"}.get(r.returncode, "?")
    detail = [l.strip() for l in r.stdout.splitlines() if l.startswith(("check ", "RESULT", "SETUP", "repo test"))]
    print("%-8s %-48s %s" % (verdict, name, " | ".join(detail)), flush=True)
    if verdict != "CAUGHT":
        print(r.stdout[-1200:], flush=True)
    rows.append((name, verdict))
print("SUMMARY caught=%d missed=%d setup=%d" % (sum(v == "CAUGHT" for _, v in rows), sum(v == "MISSED" for _, v in rows), sum(v == "SETUP" for _, v in rows)))
