#!/bin/sh
# runs every registered quick check on the current tree; exit 0 only if all of them exit 0
cd "$(dirname "$0")/.." || exit 2
bad=0
for p in $(python3 -c "import sys; sys.path.insert(0,'tools'); import props; print(' '.join(sorted(props.PROPS)))"); do
	out=$(bin/check "$p" quick 2>&1); rc=$?
	echo "$out" | tail -1
	if [ $rc -ne 0 ]; then bad=1; echo "$out" | grep -E "^(VIOLATION|INFRA|  class)" | head -5; fi
done
exit $bad
