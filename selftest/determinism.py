#!/usr/bin/env python3
"""Determinism self-test: every property's runs 0..N-1 are executed several times in different
processes, with different chunkings, worker counts and build variants; the per-run result lines
(status, event-log fingerprint, schedule hash, step count, probes, faults) must be identical.
usage: determinism.py [N] [props...]"""
import os, subprocess, sys, concurrent.futures as cf
V = os.path.dirname(os.path.dirname(os.path.abspath(__file__)))
sys.path.insert(0, os.path.join(V, "tools"))
from props import PROPS
ENV = dict(os.environ, MTBLSIM_TOOLS=os.path.join(V, "build/tools"))

def run(variant, engine, prop, a, b, seed):
    p = subprocess.run([os.path.join(V, "build", variant, "mtblsim"), "run", "--engine", engine, "--prop", prop, "--seed", str(seed),
                        "--from", str(a), "--to", str(b)], stdout=subprocess.PIPE, stderr=subprocess.DEVNULL, text=True, env=ENV)
    return [l for l in p.stdout.splitlines() if l.startswith("RUN ")]

def sweep(variant, engine, prop, n, chunk, workers, seed):
    chunks = [(a, min(a + chunk, n)) for a in range(0, n, chunk)]
    out = []
    with cf.ThreadPoolExecutor(max_workers=workers) as ex:
        for lines in ex.map(lambda c: run(variant, engine, prop, c[0], c[1], seed), chunks):
            out += lines
    return sorted(out, key=lambda l: int(l.split()[1].split("=")[1]))

def main():
    n = int(sys.argv[1]) if len(sys.argv) > 1 else 600
    props = sys.argv[2:] or sorted(PROPS)
    bad = 0
    for prop in props:
        c = PROPS[prop]
        base = sweep(c["variant"], c["engine"], prop, n, 100, 16, 7)
        configs = [(c["variant"], 37, 1), (c["variant"], 250, 8)]
        if c["engine"] != "leak":   # the heap ledger exists in the asan variant only
            configs.append(("plain", 100, 16))
        for variant, chunk, workers in configs:
            other = sweep(variant, c["engine"], prop, n, chunk, workers, 7)
            diff = [(x, y) for x, y in zip(base, other) if x != y]
            if len(base) != len(other) or diff:
                bad += 1
                print("NONDETERMINISTIC %s: %s chunk=%d workers=%d: %d/%d lines differ" % (prop, variant, chunk, workers, len(diff), len(base)))
                for x, y in diff[:2]:
                    print("  ", x[:300]); print("  ", y[:300])
            else:
                print("ok %s %s chunk=%d workers=%d: %d runs identical" % (prop, variant, chunk, workers, len(base)))
    sys.exit(1 if bad else 0)
main()
