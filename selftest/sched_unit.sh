#!/bin/sh
# scheduler unit test: 400 seeds x {normal, lost-signal mode}, each twice (same output = deterministic)
set -e
cd "$(dirname "$0")/.."
make -s build/nosan/sched.o >/dev/null
t=$(mktemp -d /dev/shm/schedunit.XXXXXX)
trap 'rm -rf $t' EXIT
clang -O1 -g -Isim selftest/sched_unit.c build/nosan/sched.o -lpthread -o $t/u
fail=0
for s in $(seq 1 400); do
  a=$($t/u $s) || { echo "$a"; fail=1; }
  b=$($t/u $s) || true
  [ "$a" = "$b" ] || { echo "nondeterministic seed $s: $a / $b"; fail=1; }
  a=$($t/u $s lost) || { echo "$a"; fail=1; }
done
[ $fail = 0 ] && echo "sched_unit: 400 seeds ok (twice each, plus lost-signal mode)"
exit $fail
