#!/bin/sh
# coverage.sh [runs-per-property] : which lines of /repo's library does the quick workload of all checks never
# execute?  (A reach measure for the generators, not a verdict.)  Output: selftest/coverage.txt
set -e
cd "$(dirname "$0")/.."
N=${1:-3000}
make -s -j16 build/cov/mtblsim build/tools/mtbl_dump >/dev/null
T=$(mktemp -d /dev/shm/mtblcov.XXXXXX)
trap 'rm -rf $T' EXIT
export MTBLSIM_SCRATCH=$T/scratch MTBLSIM_TOOLS=$PWD/build/tools
mkdir -p $T/scratch
python3 - "$N" "$T" <<'PY'
import sys, os, subprocess, concurrent.futures as cf
sys.path.insert(0, "tools")
from props import PROPS
n, t = int(sys.argv[1]), sys.argv[2]
jobs = []
for prop, c in sorted(PROPS.items()):
    for k, a in enumerate(range(0, n, 250)):
        jobs.append((prop, c["engine"], a, min(a + 250, n)))
def run(j):
    prop, eng, a, b = j
    env = dict(os.environ, LLVM_PROFILE_FILE="%s/%s.%d.profraw" % (t, prop, a))
    subprocess.run(["build/cov/mtblsim", "run", "--engine", eng, "--prop", prop, "--tier", "thorough", "--seed", "1", "--from", str(a), "--to", str(b)],
                   stdout=subprocess.DEVNULL, stderr=subprocess.DEVNULL, env=env)
with cf.ThreadPoolExecutor(16) as ex:
    list(ex.map(run, jobs))
PY
llvm-profdata-14 merge -o $T/all.profdata $T/*.profraw
llvm-cov-14 report build/cov/mtblsim -instr-profile=$T/all.profdata /repo/mtbl /repo/libmy 2>/dev/null | grep -v "^-" > selftest/coverage.txt
echo >> selftest/coverage.txt
echo "== lines never executed (library sources only)" >> selftest/coverage.txt
llvm-cov-14 show build/cov/mtblsim -instr-profile=$T/all.profdata /repo/mtbl /repo/libmy -show-line-counts-or-regions=0 2>/dev/null \
  | awk '/^\/repo\//{f=$0} /^ *[0-9]+\| *0\|/{print f " " $0}' >> selftest/coverage.txt
head -40 selftest/coverage.txt
