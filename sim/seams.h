/* File / clock / temp-file seams.  The repo TUs are compiled with
 *   writer.c : -Dwrite=sim_write -Dwritev=sim_writev -Dpwrite=sim_pwrite -Dpwritev=sim_pwritev -Dopen=sim_open -Dclose=sim_close -Ddup=sim_dup
 *   reader.c : -Dmmap=sim_mmap -Dmunmap=sim_munmap -Dopen=sim_open -Dclose=sim_close
 *   sorter.c : -Dmkstemp=sim_mkstemp -Dunlink=sim_unlink -Dclose=sim_close
 *   fileset.c: -Dclock_gettime=sim_clock_gettime
 * Everything passes through to the kernel unless a fault / mode is armed. */
#ifndef SIM_SEAMS_H
#define SIM_SEAMS_H
#include <stddef.h>
#include <stdint.h>
#include <sys/types.h>
#include <time.h>
#ifdef __cplusplus
extern "C" {
#endif

ssize_t sim_write(int fd, const void *buf, size_t n);
struct iovec;
ssize_t sim_writev(int fd, const struct iovec *iov, int cnt);
ssize_t sim_pwrite(int fd, const void *buf, size_t n, off_t off);
ssize_t sim_pwritev(int fd, const struct iovec *iov, int cnt, off_t off);
int sim_open(const char *path, int flags, ...);
int sim_close(int fd);
int sim_dup(int fd);
void *sim_mmap(void *addr, size_t len, int prot, int flags, int fd, off_t off);
int sim_munmap(void *addr, size_t len);
int sim_mkstemp(char *tmpl);
int sim_mkostemp(char *tmpl, int flags);
int sim_unlink(const char *path);
int sim_clock_gettime(clockid_t, struct timespec *);

/* ---- write faults ---- */
enum { WF_FULL = 0, WF_SHORT = 1, WF_EINTR = 2, WF_HARD = 3 };
struct sim_wfault { uint32_t call; uint8_t kind; uint32_t arg; };	/* arg: bytes for SHORT (mod n-1, +1), errno for HARD */
/* explicit list: the k-th write call (0-based, counted from arm) gets the fault; several
 * entries may name the same call: they are applied in order (EINTR, EINTR, SHORT, ...) */
void sim_wfault_arm_list(const struct sim_wfault *list, size_t n);
/* profile: every call draws from a PRNG: short_pm / eintr_pm per mille */
void sim_wfault_arm_profile(uint64_t seed, int short_pm, int eintr_pm);
void sim_wfault_disarm(void);
struct sim_wstats { uint64_t calls, full, shorts, eintrs, hards, bytes, eintr_runs2, vectored; uint64_t call_sizes_hash; };
void sim_wstats_get(struct sim_wstats *);
/* log of write calls (sizes) since arm, for exhaustive single-fault sweeps */
size_t sim_wlog(uint32_t *sizes, size_t max);

/* ---- open fault ---- */
void sim_open_swap_with(const char *replacement);	/* the next open() without O_CREAT finds `replacement` renamed over its path (one shot; NULL = off) */

/* ---- mmap mode ---- */
void sim_mmap_fail_in(int n);	/* fault: the n-th mmap call from now fails with ENOMEM (one shot; 0 = off) */
void sim_mmap_track(int on);	/* 1: remember real mappings made through the seam ... */
int sim_mmap_release_leaked(void);	/* ... and unmap those still alive (after a trapped assertion); returns how many */
void sim_mmap_exact_heap(int on);	/* 1: mmap returns an exact-size heap copy (ASan red zones on both ends) */

/* ---- clock ---- */
void sim_clock_set(int64_t sec, int64_t nsec);
void sim_clock_advance(int64_t sec, int64_t nsec);
void sim_clock_now(int64_t *sec, int64_t *nsec);
uint64_t sim_clock_reads(void);

/* ---- ledger ---- */
struct sim_ledger {
	int64_t opens, closes, dups, mmaps, munmaps, mkstemps, unlinks, mmap_failures, open_swaps;
	int64_t live_fds, live_maps, live_tmp;
};
void sim_ledger_get(struct sim_ledger *);
void sim_ledger_reset(void);
/* mkstemp templates seen since reset (as passed in, before substitution) */
size_t sim_mkstemp_templates(char (*out)[256], size_t max);

#ifdef __cplusplus
}
#endif
#endif
