/* assert trap: -Wl,--wrap=__assert_fail.  A failed assert() in repo code
 * longjmps back to the harness when (and only when) a trap is armed on the
 * calling thread; otherwise it is a real abort. */
#ifndef SIM_TRAP_H
#define SIM_TRAP_H
#include <setjmp.h>
#ifdef __cplusplus
extern "C" {
#endif
extern __thread jmp_buf sim_trap_jb;
extern __thread int sim_trap_armed;
extern __thread char sim_trap_what[256];	/* "file:line: expr" of the last trapped assert */
/* usage: if (SIM_TRAP_TRY()) { ...code that may assert...; SIM_TRAP_END(); } else { trapped } */
#define SIM_TRAP_TRY()	(sim_trap_armed = 1, setjmp(sim_trap_jb) == 0)
#define SIM_TRAP_END()	(sim_trap_armed = 0)
#ifdef __cplusplus
}
#endif
#endif
