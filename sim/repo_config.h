/* -include'd first for every repo TU */
#if __has_include("/repo/config.h")
#include "/repo/config.h"
#else
#include "config_fallback.h"
#endif
