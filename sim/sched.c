/* Deterministic scheduler.  Compiled WITHOUT any sanitizer: the baton (futex +
 * seq_cst atomics) must be invisible to ThreadSanitizer so that serialising
 * the threads does not manufacture happens-before edges; the emulated mutex
 * operations are reported to TSan explicitly as acquire/release.
 * No malloc / stdio on the scheduling paths. */
#define _GNU_SOURCE
#include "simsched.h"
#include "prng.h"
#include <linux/futex.h>
#include <sys/syscall.h>
#include <unistd.h>
#include <string.h>
#include <stdatomic.h>
#include <limits.h>
#include <errno.h>
#include <stdlib.h>
#include <sys/mman.h>

/* weak: present in TSan builds only */
extern void __tsan_acquire(void *) __attribute__((weak));
extern void __tsan_release(void *) __attribute__((weak));
static inline void ts_acq(void *p) { if (__tsan_acquire) __tsan_acquire(p); }
static inline void ts_rel(void *p) { if (__tsan_release) __tsan_release(p); }

#define MAXT 48
enum { ST_FREE = 0, ST_RUN, ST_WANT_LOCK, ST_WAIT_COND, ST_WAIT_JOIN, ST_EXITED, ST_WAIT_ONCE };

struct smutex { uint32_t magic; int32_t owner; };	/* lives inside pthread_mutex_t */
struct scond { uint32_t magic; uint32_t pad; };		/* lives inside pthread_cond_t */
#define MMAGIC 0x53494d4dU
#define CMAGIC 0x53494d43U

struct sthread {
	int state;
	void *obj;		/* mutex wanted / cond waited on */
	void *mtx;		/* mutex to re-acquire after cond wait */
	int join_target;
	atomic_int go;
	pthread_t real;
	void *(*fn)(void *);
	void *arg;
	int joined;
	int timed;		/* waiting in cond_timedwait: may be ended by a timeout */
	int timedout;
	int routine;
	unsigned epoch;
	int64_t prio;
	uint64_t delayed_until;
};

static struct {
	int active;
	struct sim_sched_cfg cfg;
	struct prng rng;
	struct sthread *t;	/* a fresh array per sim_sched_begin: a thread leaked by an earlier run stays parked on its own words for ever */
	int nt;
	int current;
	uint64_t step;
	struct sim_sched_stats st;
	int live;
	int routine_live[8];
	int nroutines;
	uint64_t change_pt[8];
	int n_change;
	int64_t low_prio;
	int starve_victim;
	uint64_t starve_until;
	int rr_left;
	uint64_t abs_seen[512];
	sim_sched_fatal_fn fatal;
	void *adopted[64];	/* statically / really initialised objects taken over while active; zeroed again at the end */
	size_t adopted_sz[64];
	int n_adopted;
} G;

static __thread int tls_tid = -1;
static atomic_uint sim_epoch;		/* incremented by every sim_sched_begin */
static __thread unsigned tls_epoch;	/* epoch in which this thread was created */

static void futex_wait(atomic_int *a, int v) { syscall(SYS_futex, a, FUTEX_WAIT_PRIVATE, v, NULL, NULL, 0); }
static void futex_wake(atomic_int *a) { syscall(SYS_futex, a, FUTEX_WAKE_PRIVATE, 1, NULL, NULL, 0); }

static atomic_int never;
static void park(struct sthread *t)
{
	while (atomic_load(&t->go) == 0)
		futex_wait(&t->go, 0);
	if (tls_epoch != atomic_load(&sim_epoch)) {
		/* defence in depth: a thread of an earlier run must never run again */
		for (;;) futex_wait(&never, 0);
	}
	atomic_store(&t->go, 0);
}
static void wake(struct sthread *t)
{
	atomic_store(&t->go, 1);
	futex_wake(&t->go);
}

/* ---- tiny formatting without stdio ---- */
static char *put_s(char *p, char *e, const char *s) { while (*s && p < e) *p++ = *s++; return p; }
static char *put_u(char *p, char *e, uint64_t v)
{
	char b[24]; int n = 0;
	do { b[n++] = '0' + v % 10; v /= 10; } while (v);
	while (n && p < e) *p++ = b[--n];
	return p;
}

static void default_fatal(const char *verdict, const char *detail)
{
	char buf[1024], *p = buf, *e = buf + sizeof buf - 2;
	p = put_s(p, e, "SCHED-VERDICT "); p = put_s(p, e, verdict);
	p = put_s(p, e, " "); p = put_s(p, e, detail); *p++ = '\n';
	(void)!write(1, buf, p - buf);
	_exit(strcmp(verdict, "DEADLOCK") == 0 ? 78 : 79);
}

void sim_sched_set_fatal(sim_sched_fatal_fn f) { G.fatal = f; }
int sim_sched_active(void) { return G.active; }

static void fatal(const char *verdict)
{
	char buf[768], *p = buf, *e = buf + sizeof buf - 1;
	static const char *names[] = { "free", "run", "wantlock", "waitcond", "waitjoin", "exited" };
	p = put_s(p, e, "step="); p = put_u(p, e, G.step);
	for (int i = 0; i < G.nt; i++) {
		p = put_s(p, e, " T"); p = put_u(p, e, i); p = put_s(p, e, ":");
		p = put_s(p, e, names[G.t[i].state]);
		if (G.t[i].state == ST_WAIT_JOIN) { p = put_s(p, e, "(T"); p = put_u(p, e, G.t[i].join_target); p = put_s(p, e, ")"); }
		p = put_s(p, e, "/r"); p = put_u(p, e, (uint64_t)(G.t[i].routine + 1));
	}
	*p = 0;
	(G.fatal ? G.fatal : default_fatal)(verdict, buf);
	_exit(77);
}

static inline int enabled(int i)
{
	struct sthread *t = &G.t[i];
	switch (t->state) {
	case ST_RUN: return 1;
	case ST_WANT_LOCK: return ((struct smutex *)t->obj)->owner < 0;
	case ST_WAIT_JOIN: return G.t[t->join_target].state == ST_EXITED;
	default: return 0;
	}
}

static void note_abs_state(void)
{
	uint64_t h = 1469598103934665603ULL;
	for (int i = 0; i < G.nt; i++) {
		struct sthread *t = &G.t[i];
		uint64_t v = (uint64_t)t->state;
		if (t->state == ST_WANT_LOCK) v |= (uint64_t)(((struct smutex *)t->obj)->owner + 2) << 8;
		if (t->state == ST_WAIT_JOIN) v |= (uint64_t)t->join_target << 8;
		h = (h ^ v) * 1099511628211ULL;
	}
	unsigned slot = h % 512;
	for (int k = 0; k < 8; k++) {
		uint64_t *c = &G.abs_seen[(slot + k) % 512];
		if (*c == h) return;
		if (*c == 0) { *c = h; G.st.abs_states++; return; }
	}
}

/* choose the next thread to run; self may be not enabled */
static int pick(int me)
{
	int en[MAXT], n = 0, en2[MAXT], n2 = 0;

	G.step++;
	G.st.steps++;
	if (G.cfg.step_budget && G.step > G.cfg.step_budget)
		fatal("STEP-BUDGET");

	/* fault: spurious wake-up of one condition waiter */
	if (G.cfg.spurious_pm && prng_below(&G.rng, 1000) < (uint64_t)G.cfg.spurious_pm) {
		int w[MAXT], nw = 0;
		for (int i = 0; i < G.nt; i++)
			if (G.t[i].state == ST_WAIT_COND) w[nw++] = i;
		if (nw) {
			struct sthread *t = &G.t[w[prng_below(&G.rng, nw)]];
			t->state = ST_WANT_LOCK; t->obj = t->mtx;
			if (t->timed) { t->timedout = 1; G.st.timeouts++; }
			G.st.spurious++;
		}
	}
	/* fault: starve one thread for a while */
	if (G.cfg.starve_pm && G.step >= G.starve_until &&
	    prng_below(&G.rng, 1000) < (uint64_t)G.cfg.starve_pm) {
		G.starve_victim = (int)prng_below(&G.rng, G.nt);
		G.starve_until = G.step + 1 + prng_below(&G.rng, G.cfg.starve_len > 0 ? G.cfg.starve_len : 1);
		G.st.starves++;
	}

	for (int i = 0; i < G.nt; i++)
		if (enabled(i)) en[n++] = i;
	if (n == 0) {
		/* nothing can run: a timed wait ends by timeout before that counts as a deadlock */
		for (int i = 0; i < G.nt && n == 0; i++)
			if (G.t[i].state == ST_WAIT_COND && G.t[i].timed) {
				G.t[i].state = ST_WANT_LOCK; G.t[i].obj = G.t[i].mtx; G.t[i].timedout = 1;
				G.st.timeouts++;
				if (enabled(i)) en[n++] = i;
			}
		if (n == 0) fatal("DEADLOCK");
	}
	for (int k = 0; k < n; k++) {
		int i = en[k];
		if (G.step < G.starve_until && i == G.starve_victim) continue;
		if (G.step < G.t[i].delayed_until) continue;
		en2[n2++] = i;
	}
	if (n2 == 0) { memcpy(en2, en, sizeof(int) * n); n2 = n; }

	int self_ok = 0;
	for (int k = 0; k < n2; k++) if (en2[k] == me) self_ok = 1;

	int next;
	switch (G.cfg.strategy) {
	case SIM_STRAT_PCT: {
		for (int c = 0; c < G.n_change; c++)
			if (G.change_pt[c] == G.step && me >= 0 && G.t[me].state != ST_EXITED)
				G.t[me].prio = --G.low_prio;
		next = en2[0];
		for (int k = 1; k < n2; k++)
			if (G.t[en2[k]].prio > G.t[next].prio) next = en2[k];
		break;
	}
	case SIM_STRAT_RUN_TO_BLOCK:
		next = self_ok ? me : en2[prng_below(&G.rng, n2)];
		break;
	case SIM_STRAT_RR:
		if (self_ok && G.rr_left > 0) { G.rr_left--; next = me; }
		else {
			next = en2[0];
			for (int k = 0; k < n2; k++) if (en2[k] > me) { next = en2[k]; break; }
			G.rr_left = G.cfg.quantum > 0 ? (int)prng_below(&G.rng, G.cfg.quantum) : 0;
		}
		break;
	default:
		next = en2[prng_below(&G.rng, n2)];
	}

	G.st.choices_hash = (G.st.choices_hash ^ (uint64_t)(next * 64 + n2)) * 1099511628211ULL;
	if (next != me) { G.st.switches++; if (self_ok) G.st.preempts++; }

	struct sthread *t = &G.t[next];
	if (t->state == ST_WANT_LOCK) { ((struct smutex *)t->obj)->owner = next; t->state = ST_RUN; }
	else if (t->state == ST_WAIT_JOIN) t->state = ST_RUN;
	note_abs_state();
	return next;
}

static void schedule(void)
{
	int me = tls_tid;
	int next = pick(me);
	if (next == me) return;
	G.current = next;
	wake(&G.t[next]);
	park(&G.t[me]);
}

void sim_yield(void)
{
	if (!G.active || tls_tid < 0) return;
	schedule();
}

/* A mutex or condition variable that is all zero bytes is one with a static initialiser, or one initialised
 * by the real libpthread (default attributes) before the scheduler became active: take it over, and give it
 * back (all zero again) at sim_sched_end. */
static int all_zero(const void *p, size_t n)
{
	const unsigned char *c = p;
	for (size_t i = 0; i < n; i++) if (c[i]) return 0;
	return 1;
}
static void adopt(void *obj, size_t sz)
{
	if (G.n_adopted < 64) { G.adopted[G.n_adopted] = obj; G.adopted_sz[G.n_adopted++] = sz; }
}
static struct smutex *mtx_of(pthread_mutex_t *m, const char *misuse)
{
	struct smutex *s = (struct smutex *)m;
	if (s->magic != MMAGIC) {
		if (!all_zero(m, sizeof *m)) fatal(misuse);
		s->magic = MMAGIC; s->owner = -1;
		adopt(m, sizeof *m);
	}
	return s;
}
static void cond_of(pthread_cond_t *c, const char *misuse)
{
	struct scond *s = (struct scond *)c;
	if (s->magic != CMAGIC) {
		if (!all_zero(c, sizeof *c)) fatal(misuse);
		s->magic = CMAGIC;
		adopt(c, sizeof *c);
	}
}

/* ---- mutex ---- */
int sim_pthread_mutex_init(pthread_mutex_t *m, const pthread_mutexattr_t *a)
{
	if (!G.active) return pthread_mutex_init(m, a);
	struct smutex *s = (struct smutex *)m;
	s->magic = MMAGIC; s->owner = -1;
	return 0;
}
int sim_pthread_mutex_destroy(pthread_mutex_t *m)
{
	if (!G.active) return pthread_mutex_destroy(m);
	struct smutex *s = (struct smutex *)m;
	if (s->magic != MMAGIC || s->owner >= 0) fatal("MUTEX-MISUSE-destroy");
	s->magic = 0;
	return 0;
}
int sim_pthread_mutex_lock(pthread_mutex_t *m)
{
	if (!G.active) return pthread_mutex_lock(m);
	struct smutex *s = mtx_of(m, "MUTEX-MISUSE-lock-uninit");
	struct sthread *t = &G.t[tls_tid];
	if (s->owner == tls_tid) fatal("MUTEX-MISUSE-relock");
	if (s->owner >= 0) G.st.lock_contended++;
	t->state = ST_WANT_LOCK; t->obj = m;
	schedule();
	/* picked: pick() made us owner */
	ts_acq(m);
	return 0;
}
int sim_pthread_mutex_trylock(pthread_mutex_t *m)
{
	if (!G.active) return pthread_mutex_trylock(m);
	struct smutex *s = mtx_of(m, "MUTEX-MISUSE-lock-uninit");
	schedule();
	if (s->owner >= 0) return EBUSY;
	s->owner = tls_tid;
	ts_acq(m);
	return 0;
}
int sim_pthread_mutex_unlock(pthread_mutex_t *m)
{
	if (!G.active) return pthread_mutex_unlock(m);
	struct smutex *s = (struct smutex *)m;
	if (s->magic != MMAGIC || s->owner != tls_tid) fatal("MUTEX-MISUSE-unlock");
	ts_rel(m);
	s->owner = -1;
	schedule();
	return 0;
}

/* ---- condition variables ---- */
int sim_pthread_cond_init(pthread_cond_t *c, const pthread_condattr_t *a)
{
	if (!G.active) return pthread_cond_init(c, a);
	((struct scond *)c)->magic = CMAGIC;
	return 0;
}
int sim_pthread_cond_destroy(pthread_cond_t *c)
{
	if (!G.active) return pthread_cond_destroy(c);
	if (((struct scond *)c)->magic != CMAGIC) fatal("COND-MISUSE-destroy");
	for (int i = 0; i < G.nt; i++)
		if (G.t[i].state == ST_WAIT_COND && G.t[i].obj == c) fatal("COND-MISUSE-destroy-with-waiters");
	((struct scond *)c)->magic = 0;
	return 0;
}
static int cond_wait_common(pthread_cond_t *c, pthread_mutex_t *m, int timed)
{
	struct smutex *s = (struct smutex *)m;
	struct sthread *t = &G.t[tls_tid];
	cond_of(c, "COND-MISUSE-wait-uninit");
	if (s->magic != MMAGIC || s->owner != tls_tid) fatal("COND-MISUSE-wait-unowned");
	G.st.cond_waits++;
	/* a real thread can be preempted between testing its predicate and
	 * blocking; the mutex is still held here, so this only matters to code
	 * that changes a predicate or signals without holding it (lost wake-up) */
	schedule();
	ts_rel(m);
	s->owner = -1;
	t->state = ST_WAIT_COND; t->obj = c; t->mtx = m; t->timed = timed; t->timedout = 0;
	schedule();
	ts_acq(m);
	t->timed = 0;
	return t->timedout ? ETIMEDOUT : 0;
}
int sim_pthread_cond_wait(pthread_cond_t *c, pthread_mutex_t *m)
{
	if (!G.active) return pthread_cond_wait(c, m);
	return cond_wait_common(c, m, 0);
}
int sim_pthread_cond_timedwait(pthread_cond_t *c, pthread_mutex_t *m, const struct timespec *ts)
{
	if (!G.active) return pthread_cond_timedwait(c, m, ts);
	return cond_wait_common(c, m, 1);
}
static int wake_one(pthread_cond_t *c)
{
	int w[MAXT], nw = 0;
	for (int i = 0; i < G.nt; i++)
		if (G.t[i].state == ST_WAIT_COND && G.t[i].obj == c) w[nw++] = i;
	if (!nw) return 0;
	struct sthread *t = &G.t[w[prng_below(&G.rng, nw)]];
	t->state = ST_WANT_LOCK; t->obj = t->mtx;
	return nw;
}
int sim_pthread_cond_signal(pthread_cond_t *c)
{
	if (!G.active) return pthread_cond_signal(c);
	cond_of(c, "COND-MISUSE-signal-uninit");
	G.st.signals++;
	int nw = wake_one(c);
	if (!nw) G.st.signals_lost++;
	if (nw > 1 && G.cfg.multiwake_pm && prng_below(&G.rng, 1000) < (uint64_t)G.cfg.multiwake_pm) {
		wake_one(c);
		G.st.multiwake++;
	}
	schedule();
	return 0;
}
int sim_pthread_cond_broadcast(pthread_cond_t *c)
{
	if (!G.active) return pthread_cond_broadcast(c);
	cond_of(c, "COND-MISUSE-signal-uninit");
	while (wake_one(c)) ;
	schedule();
	return 0;
}

/* ---- threads ---- */
static void thread_exit_self(void)
{
	int me = tls_tid;
	G.t[me].state = ST_EXITED;
	G.live--;
	if (G.t[me].routine >= 0) G.routine_live[G.t[me].routine]--;
	int next = pick(me);
	G.current = next;
	wake(&G.t[next]);
}

static void *tramp(void *v)
{
	struct sthread *t = v;
	tls_tid = (int)(t - G.t);
	tls_epoch = t->epoch;
	park(t);
	void *r = t->fn(t->arg);
	thread_exit_self();
	return r;
}

int sim_pthread_create(pthread_t *th, const pthread_attr_t *a, void *(*fn)(void *), void *arg)
{
	if (!G.active) return pthread_create(th, a, fn, arg);
	if (G.nt >= MAXT) fatal("TOO-MANY-THREADS");
	int id = G.nt++;
	struct sthread *t = &G.t[id];
	memset(t, 0, sizeof *t);
	t->state = ST_RUN; t->fn = fn; t->arg = arg;
	t->epoch = atomic_load(&sim_epoch);
	t->prio = (int64_t)(prng_next(&G.rng) >> 2);
	t->routine = -1;
	for (int r = 0; r < G.nroutines; r++) if (G.st.routine[r] == (void *)fn) t->routine = r;
	if (t->routine < 0 && G.nroutines < 8) { t->routine = G.nroutines; G.st.routine[G.nroutines++] = (void *)fn; }
	if (t->routine >= 0) {
		G.st.routine_created[t->routine]++;
		if ((uint32_t)++G.routine_live[t->routine] > G.st.routine_max_live[t->routine])
			G.st.routine_max_live[t->routine] = G.routine_live[t->routine];
	}
	G.st.threads_created++;
	if ((uint64_t)++G.live > G.st.max_live) G.st.max_live = G.live;
	if (G.cfg.delay_pm && prng_below(&G.rng, 1000) < (uint64_t)G.cfg.delay_pm) {
		t->delayed_until = G.step + 1 + prng_below(&G.rng, G.cfg.delay_len > 0 ? G.cfg.delay_len : 1);
		G.st.delays++;
	}
	int rc = pthread_create(&t->real, a, tramp, t);
	if (rc != 0) fatal("REAL-PTHREAD-CREATE-FAILED");
	*th = t->real;
	schedule();
	return 0;
}

int sim_pthread_join(pthread_t th, void **ret)
{
	if (!G.active) return pthread_join(th, ret);
	int target = -1;
	for (int i = 1; i < G.nt; i++)
		if (!G.t[i].joined && pthread_equal(G.t[i].real, th)) target = i;
	if (target < 0) fatal("JOIN-UNKNOWN-THREAD");
	struct sthread *t = &G.t[tls_tid];
	if (G.t[target].state != ST_EXITED) G.st.join_waited++;
	t->state = ST_WAIT_JOIN; t->join_target = target;
	schedule();
	G.t[target].joined = 1;
	return pthread_join(th, ret);
}

int sim_pthread_detach(pthread_t th)
{
	if (!G.active) return pthread_detach(th);
	for (int i = 1; i < G.nt; i++)
		if (!G.t[i].joined && pthread_equal(G.t[i].real, th)) { G.t[i].joined = 1; return pthread_detach(th); }
	fatal("DETACH-UNKNOWN-THREAD");
	return 0;
}

/* pthread_once: the flag itself belongs to the real implementation (glibc's, or ThreadSanitizer's interceptor, which
 * encodes "done" differently), so the real pthread_once is what runs the routine - but inside an emulated mutex kept
 * per once-object: a second caller waits on something the scheduler owns, never in the kernel while the first one is
 * parked inside the routine.  The table outlives the runs (once-flags are process-global); its mutexes are reset by
 * sim_sched_begin. */
static struct { void *once; struct smutex m; } once_tab[64];
static int n_once;
int sim_pthread_once(pthread_once_t *once, void (*fn)(void))
{
	if (!G.active) return pthread_once(once, fn);
	int e = -1;
	for (int i = 0; i < n_once; i++) if (once_tab[i].once == (void *)once) e = i;
	if (e < 0) {
		if (n_once >= 64) fatal("TOO-MANY-ONCE-OBJECTS");
		e = n_once++;
		once_tab[e].once = (void *)once; once_tab[e].m.magic = MMAGIC; once_tab[e].m.owner = -1;
	}
	struct sthread *t = &G.t[tls_tid];
	t->state = ST_WANT_LOCK; t->obj = &once_tab[e].m;
	schedule();
	int r = pthread_once(once, fn);
	once_tab[e].m.owner = -1;
	schedule();
	return r;
}

static int prev_unjoined;
void sim_sched_begin(const struct sim_sched_cfg *cfg)
{
	sim_sched_fatal_fn f = G.fatal;
	memset(&G, 0, sizeof G);
	G.fatal = f;
	/* A fresh thread table per run, mapped and never unmapped (a few KB): a thread leaked by an earlier run
	 * stays parked on words that no later run can touch, so it can neither be woken nor steal a wake-up.
	 * (mmap, not malloc: the leak check's heap accounting must not see the harness.) */
	size_t sz = (sizeof(struct sthread) * MAXT + 4095) & ~(size_t)4095;
	G.t = mmap(NULL, sz, PROT_READ | PROT_WRITE, MAP_PRIVATE | MAP_ANONYMOUS, -1, 0);
	if (G.t == MAP_FAILED) _exit(97);
	tls_epoch = atomic_fetch_add(&sim_epoch, 1) + 1;
	G.cfg = *cfg;
	prng_seed(&G.rng, cfg->seed, 0x5c4ed, 7);
	G.nt = 1;
	G.t[0].state = ST_RUN;
	G.t[0].routine = -1;
	G.t[0].prio = (int64_t)(prng_next(&G.rng) >> 2);
	G.live = 1; G.st.max_live = 1;
	G.starve_victim = -1;
	tls_tid = 0;
	G.current = 0;
	G.st.choices_hash = 1469598103934665603ULL;
	if (cfg->strategy == SIM_STRAT_PCT) {
		G.n_change = cfg->pct_depth > 8 ? 8 : cfg->pct_depth;
		uint64_t span = cfg->expected_steps ? cfg->expected_steps : 1000;
		for (int i = 0; i < G.n_change; i++)
			G.change_pt[i] = 1 + prng_below(&G.rng, span);
	}
	for (int i = 0; i < n_once; i++) { once_tab[i].m.magic = MMAGIC; once_tab[i].m.owner = -1; }
	G.active = 1;
}

void sim_sched_end(struct sim_sched_stats *out)
{
	int unjoined = 0;
	for (int i = 1; i < G.nt; i++)
		if (G.t[i].state != ST_EXITED || !G.t[i].joined) unjoined++;
	G.st.unjoined = unjoined;
	prev_unjoined = unjoined;
	if (out) *out = G.st;
	for (int i = 0; i < G.n_adopted; i++) memset(G.adopted[i], 0, G.adopted_sz[i]);
	G.active = 0;
	tls_tid = -1;
}
