/* -include'd when compiling every library source of /repo (today only
 * mtbl/threadpool.c calls pthreads): every pthread call becomes a scheduling
 * point of sim/sched.c, also one that a later change adds to another file. */
#ifndef SIM_SEAM_PTHREAD_H
#define SIM_SEAM_PTHREAD_H
#include <pthread.h>
#include "simsched.h"
#define pthread_mutex_init	sim_pthread_mutex_init
#define pthread_mutex_destroy	sim_pthread_mutex_destroy
#define pthread_mutex_lock	sim_pthread_mutex_lock
#define pthread_mutex_unlock	sim_pthread_mutex_unlock
#define pthread_mutex_trylock	sim_pthread_mutex_trylock
#define pthread_cond_init	sim_pthread_cond_init
#define pthread_cond_destroy	sim_pthread_cond_destroy
#define pthread_cond_wait	sim_pthread_cond_wait
#define pthread_cond_timedwait	sim_pthread_cond_timedwait
#define pthread_cond_signal	sim_pthread_cond_signal
#define pthread_cond_broadcast	sim_pthread_cond_broadcast
#define pthread_create		sim_pthread_create
#define pthread_join		sim_pthread_join
#define pthread_detach		sim_pthread_detach
#define pthread_once		sim_pthread_once
#endif
