/* -include'd when compiling /repo/mtbl/threadpool.c: every pthread call the
 * pool makes becomes a scheduling point of sim/sched.c. */
#ifndef SIM_SEAM_PTHREAD_H
#define SIM_SEAM_PTHREAD_H
#include <pthread.h>
#include "simsched.h"
#define pthread_mutex_init	sim_pthread_mutex_init
#define pthread_mutex_destroy	sim_pthread_mutex_destroy
#define pthread_mutex_lock	sim_pthread_mutex_lock
#define pthread_mutex_unlock	sim_pthread_mutex_unlock
#define pthread_cond_init	sim_pthread_cond_init
#define pthread_cond_destroy	sim_pthread_cond_destroy
#define pthread_cond_wait	sim_pthread_cond_wait
#define pthread_cond_signal	sim_pthread_cond_signal
#define pthread_cond_broadcast	sim_pthread_cond_broadcast
#define pthread_create		sim_pthread_create
#define pthread_join		sim_pthread_join
#endif
