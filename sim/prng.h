/* Seeded PRNG: splitmix64 for stream derivation, xoshiro256** for draws.
 * One integer (VERIF_SEED, run index, stream id) decides everything.
 * Header-only, usable from C and C++. */
#ifndef SIM_PRNG_H
#define SIM_PRNG_H
#include <stdint.h>

static inline uint64_t sm64(uint64_t *s)
{
	uint64_t z = (*s += 0x9E3779B97F4A7C15ULL);
	z = (z ^ (z >> 30)) * 0xBF58476D1CE4E5B9ULL;
	z = (z ^ (z >> 27)) * 0x94D049BB133111EBULL;
	return z ^ (z >> 31);
}

struct prng { uint64_t s[4]; };

static inline void prng_seed(struct prng *p, uint64_t seed, uint64_t run, uint64_t stream)
{
	uint64_t x = seed * 0xD6E8FEB86659FD93ULL + run * 0xA0761D6478BD642FULL +
	    stream * 0xE7037ED1A0B428DBULL + 0x1234567ULL;
	for (int i = 0; i < 4; i++)
		p->s[i] = sm64(&x);
}

static inline uint64_t prng_rotl(uint64_t x, int k) { return (x << k) | (x >> (64 - k)); }

static inline uint64_t prng_next(struct prng *p)
{
	uint64_t *s = p->s;
	uint64_t r = prng_rotl(s[1] * 5, 7) * 9, t = s[1] << 17;
	s[2] ^= s[0]; s[3] ^= s[1]; s[1] ^= s[2]; s[0] ^= s[3];
	s[2] ^= t; s[3] = prng_rotl(s[3], 45);
	return r;
}

/* uniform in [0, n) ; n == 0 -> 0 */
static inline uint64_t prng_below(struct prng *p, uint64_t n)
{
	if (n == 0) return 0;
	return prng_next(p) % n;	/* modulo bias irrelevant here */
}

/* true with probability num/den */
static inline int prng_chance(struct prng *p, uint64_t num, uint64_t den)
{
	return prng_below(p, den) < num;
}

#ifdef __cplusplus
struct Rng {
	prng p;
	Rng() { prng_seed(&p, 1, 0, 0); }
	Rng(uint64_t seed, uint64_t run, uint64_t stream) { prng_seed(&p, seed, run, stream); }
	uint64_t next() { return prng_next(&p); }
	uint64_t below(uint64_t n) { return prng_below(&p, n); }
	/* inclusive range */
	int64_t range(int64_t lo, int64_t hi) { return lo + (int64_t)prng_below(&p, (uint64_t)(hi - lo + 1)); }
	bool chance(uint64_t num, uint64_t den) { return prng_chance(&p, num, den); }
	template <class T> const T &pick(const T *a, size_t n) { return a[below(n)]; }
};
#endif
#endif
