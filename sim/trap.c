#include "trap.h"
#include <stdio.h>
#include <stdlib.h>
__thread jmp_buf sim_trap_jb;
__thread int sim_trap_armed;
__thread char sim_trap_what[256];
void __real___assert_fail(const char *, const char *, unsigned, const char *) __attribute__((noreturn));
void __wrap___assert_fail(const char *expr, const char *file, unsigned line, const char *func)
{
	if (sim_trap_armed) {
		sim_trap_armed = 0;
		snprintf(sim_trap_what, sizeof sim_trap_what, "%s:%u: %s: %s", file, line, func, expr);
		longjmp(sim_trap_jb, 1);
	}
	__real___assert_fail(expr, file, line, func);
}
