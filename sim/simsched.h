/* Deterministic scheduler behind the pthread names used by mtbl/threadpool.c.
 * Real threads, parked and released one at a time at every synchronisation
 * point; the seeded PRNG decides who runs.  See DESIGN.md section 3.2. */
#ifndef SIM_SCHED_H
#define SIM_SCHED_H
#include <pthread.h>
#include <stdint.h>
#ifdef __cplusplus
extern "C" {
#endif

int sim_pthread_mutex_init(pthread_mutex_t *, const pthread_mutexattr_t *);
int sim_pthread_mutex_destroy(pthread_mutex_t *);
int sim_pthread_mutex_lock(pthread_mutex_t *);
int sim_pthread_mutex_unlock(pthread_mutex_t *);
int sim_pthread_mutex_trylock(pthread_mutex_t *);
int sim_pthread_cond_init(pthread_cond_t *, const pthread_condattr_t *);
int sim_pthread_cond_destroy(pthread_cond_t *);
int sim_pthread_cond_wait(pthread_cond_t *, pthread_mutex_t *);
int sim_pthread_cond_timedwait(pthread_cond_t *, pthread_mutex_t *, const struct timespec *);
int sim_pthread_cond_signal(pthread_cond_t *);
int sim_pthread_cond_broadcast(pthread_cond_t *);
int sim_pthread_create(pthread_t *, const pthread_attr_t *, void *(*)(void *), void *);
int sim_pthread_join(pthread_t, void **);
int sim_pthread_detach(pthread_t);
int sim_pthread_once(pthread_once_t *, void (*)(void));
void sim_yield(void);

enum { SIM_STRAT_RANDOM = 0, SIM_STRAT_PCT = 1, SIM_STRAT_RUN_TO_BLOCK = 2, SIM_STRAT_RR = 3, SIM_STRAT_N = 4 };

struct sim_sched_cfg {
	uint64_t seed;
	int strategy;
	int pct_depth;		/* number of priority change points (PCT) */
	int quantum;		/* RR quantum */
	int spurious_pm;	/* per-mille chance per step of a spurious cond wake-up */
	int multiwake_pm;	/* per-mille chance a signal wakes a second waiter */
	int starve_pm;		/* per-mille chance per step to start starving a thread */
	int starve_len;		/* steps */
	int delay_pm;		/* per-mille chance a created thread is delayed */
	int delay_len;		/* steps */
	uint64_t step_budget;
	uint64_t expected_steps;
};

struct sim_sched_stats {
	uint64_t steps, choices_hash, switches, preempts;
	uint64_t spurious, multiwake, starves, delays, timeouts;
	uint64_t lock_contended, cond_waits, signals_lost, signals;
	uint64_t threads_created, max_live;
	/* per start routine (first SIM_MAX_ROUTINES distinct ones, in order of first use) */
	void *routine[8];
	uint32_t routine_created[8], routine_max_live[8];
	uint64_t join_waited;	/* joins that had to block */
	uint64_t abs_states;	/* distinct abstract states (thread states x mutex owners) seen in this run */
	int unjoined;		/* threads not exited/joined at sim_sched_end (should be 0) */
};

/* active == deterministic mode; when not active every sim_pthread_* call is
 * forwarded to the real libpthread function (used by the CLI tools). */
void sim_sched_begin(const struct sim_sched_cfg *);
void sim_sched_end(struct sim_sched_stats *);
int sim_sched_active(void);

/* called on DEADLOCK / STEP-BUDGET; default prints a SCHED-VERDICT line and _exit(78/79) */
typedef void (*sim_sched_fatal_fn)(const char *verdict, const char *detail);
void sim_sched_set_fatal(sim_sched_fatal_fn);

#ifdef __cplusplus
}
#endif
#endif
