/* The simulated "kernel side": fault-injecting write, exact-bounds mmap,
 * simulated clock, resource ledger.  Compiled without sanitizers (like
 * sched.c) so that its bookkeeping is invisible to TSan; only one simulated
 * thread runs at any time so no locking is needed in deterministic mode. */
#define _GNU_SOURCE
#include "seams.h"
#include "prng.h"
#include <errno.h>
#include <sys/uio.h>
#include <fcntl.h>
#include <stdarg.h>
#include <stdlib.h>
#include <string.h>
#include <sys/mman.h>
#include <stdio.h>
#include <sys/stat.h>
#include <unistd.h>

/* ------------------------------------------------------------------ write */
#define WMAX 4096
static struct {
	int mode;			/* 0 off, 1 list, 2 profile */
	struct sim_wfault list[WMAX];
	size_t nlist, pos;
	uint32_t call;
	struct prng rng;
	int short_pm, eintr_pm;
	int eintr_run;
	struct sim_wstats st;
	uint32_t log[WMAX];
	size_t nlog;
} W;

void sim_wfault_arm_list(const struct sim_wfault *l, size_t n)
{
	memset(&W, 0, sizeof W);
	if (n > WMAX) n = WMAX;
	memcpy(W.list, l, n * sizeof *l);
	W.nlist = n;
	W.mode = 1;
	W.st.call_sizes_hash = 1469598103934665603ULL;
}
void sim_wfault_arm_profile(uint64_t seed, int short_pm, int eintr_pm)
{
	memset(&W, 0, sizeof W);
	prng_seed(&W.rng, seed, 0x77, 3);
	W.short_pm = short_pm; W.eintr_pm = eintr_pm;
	W.mode = 2;
	W.st.call_sizes_hash = 1469598103934665603ULL;
}
void sim_wfault_disarm(void) { W.mode = 0; }
void sim_wstats_get(struct sim_wstats *o) { *o = W.st; }
size_t sim_wlog(uint32_t *sizes, size_t max)
{
	size_t n = W.nlog < max ? W.nlog : max;
	memcpy(sizes, W.log, n * sizeof *sizes);
	return W.nlog;
}

/* One decision per call of the write family (write, writev, pwrite, pwritev all count as calls of the same
 * sequence): how many of the n bytes requested go through.  Returns n for a full write, 1..n-1 for a short one,
 * -1 with errno set for EINTR or a hard error. */
static ssize_t short_len(size_t n, uint32_t arg)
{
	if (n <= 1) { W.st.full++; W.st.bytes += n; return (ssize_t)n; }
	size_t k = 1 + arg % (n - 1);
	W.st.shorts++; W.st.bytes += k;
	return (ssize_t)k;
}
static ssize_t decide(size_t n)
{
	W.st.calls++;
	if (W.mode == 1) {
		/* one logical write call of the caller = consecutive attempts; the
		 * attempt counter is what list entries name */
		uint32_t call = W.call;
		if (W.nlog < WMAX) W.log[W.nlog++] = (uint32_t)n;
		W.st.call_sizes_hash = (W.st.call_sizes_hash ^ n) * 1099511628211ULL;
		W.call++;
		while (W.pos < W.nlist && W.list[W.pos].call < call) W.pos++;
		if (W.pos < W.nlist && W.list[W.pos].call == call) {
			struct sim_wfault f = W.list[W.pos++];
			switch (f.kind) {
			case WF_SHORT: W.eintr_run = 0; return short_len(n, f.arg);
			case WF_EINTR:
				W.st.eintrs++;
				if (++W.eintr_run == 2) W.st.eintr_runs2++;
				errno = EINTR; return -1;
			case WF_HARD: W.st.hards++; errno = f.arg ? (int)f.arg : EIO; return -1;
			default: break;
			}
		}
		W.eintr_run = 0;
		W.st.full++; W.st.bytes += n;
		return (ssize_t)n;
	}
	/* profile */
	W.st.call_sizes_hash = (W.st.call_sizes_hash ^ n) * 1099511628211ULL;
	uint64_t r = prng_below(&W.rng, 1000);
	if (r < (uint64_t)W.eintr_pm) {
		W.st.eintrs++;
		if (++W.eintr_run == 2) W.st.eintr_runs2++;
		errno = EINTR; return -1;
	}
	W.eintr_run = 0;
	if (r < (uint64_t)(W.eintr_pm + W.short_pm))
		return short_len(n, (uint32_t)prng_next(&W.rng));
	W.st.full++; W.st.bytes += n;
	return (ssize_t)n;
}

ssize_t sim_write(int fd, const void *buf, size_t n)
{
	if (W.mode == 0) return write(fd, buf, n);
	ssize_t k = decide(n);
	return k < 0 ? -1 : write(fd, buf, (size_t)k);
}
ssize_t sim_pwrite(int fd, const void *buf, size_t n, off_t off)
{
	if (W.mode == 0) return pwrite(fd, buf, n, off);
	ssize_t k = decide(n);
	return k < 0 ? -1 : pwrite(fd, buf, (size_t)k, off);
}
/* the first k bytes of an iovec array */
static int clip_iov(const struct iovec *iov, int cnt, size_t k, struct iovec *out)
{
	int m = 0;
	for (int i = 0; i < cnt && k > 0 && m < 64; i++) {
		if (iov[i].iov_len == 0) continue;
		out[m] = iov[i];
		if (out[m].iov_len > k) out[m].iov_len = k;
		k -= out[m].iov_len;
		m++;
	}
	return m;
}
ssize_t sim_writev(int fd, const struct iovec *iov, int cnt)
{
	if (W.mode == 0 || cnt > 64) return writev(fd, iov, cnt);
	size_t n = 0;
	for (int i = 0; i < cnt; i++) n += iov[i].iov_len;
	ssize_t k = decide(n);
	if (k < 0) return -1;
	struct iovec c[64];
	int m = clip_iov(iov, cnt, (size_t)k, c);
	W.st.vectored++;
	return writev(fd, c, m);
}
ssize_t sim_pwritev(int fd, const struct iovec *iov, int cnt, off_t off)
{
	if (W.mode == 0 || cnt > 64) return pwritev(fd, iov, cnt, off);
	size_t n = 0;
	for (int i = 0; i < cnt; i++) n += iov[i].iov_len;
	ssize_t k = decide(n);
	if (k < 0) return -1;
	struct iovec c[64];
	int m = clip_iov(iov, cnt, (size_t)k, c);
	W.st.vectored++;
	return pwritev(fd, c, m, off);
}

/* ----------------------------------------------------------------- ledger */
static struct sim_ledger L;
/* counters are bumped with relaxed atomics from uninstrumented code: invisible to TSan, exact with real threads */
#define INC(f) __atomic_fetch_add(&L.f, 1, __ATOMIC_RELAXED)
#define DEC(f) __atomic_fetch_sub(&L.f, 1, __ATOMIC_RELAXED)
static char tmpl_log[64][256];
static size_t ntmpl;

void sim_ledger_get(struct sim_ledger *o) { *o = L; }
void sim_ledger_reset(void) { memset(&L, 0, sizeof L); ntmpl = 0; }
size_t sim_mkstemp_templates(char (*out)[256], size_t max)
{
	size_t n = ntmpl < 64 ? ntmpl : 64;
	if (n > max) n = max;
	memcpy(out, tmpl_log, n * 256);
	return ntmpl;
}

/* descriptors opened through the seam while tracking is on (see sim_mmap_track): closed by sim_release_leaked */
static int track_fds;
static int live_fd_tab[64] = { -1, -1, -1, -1, -1, -1, -1, -1, -1, -1, -1, -1, -1, -1, -1, -1, -1, -1, -1, -1, -1, -1, -1, -1, -1, -1, -1, -1, -1, -1, -1, -1,
			       -1, -1, -1, -1, -1, -1, -1, -1, -1, -1, -1, -1, -1, -1, -1, -1, -1, -1, -1, -1, -1, -1, -1, -1, -1, -1, -1, -1, -1, -1, -1, -1 };
static void log_template(const char *t)
{
	size_t slot = __atomic_fetch_add(&ntmpl, 1, __ATOMIC_RELAXED);
	if (slot < 64) { size_t i = 0; for (; i < 255 && t[i]; i++) tmpl_log[slot][i] = t[i]; tmpl_log[slot][i] = 0; }	/* no libc call: TSan intercepts strncpy */
}
/* fault: another process publishes a different file under the name (rename) just before the next open() without
 * O_CREAT reaches the kernel - i.e. after anything the caller has learnt about the path beforehand; one shot */
static const char *swap_src;
void sim_open_swap_with(const char *replacement) { swap_src = replacement; }
int sim_open(const char *path, int flags, ...)
{
	mode_t mode = 0;
	if ((flags & O_CREAT) || (flags & O_TMPFILE) == O_TMPFILE) { va_list ap; va_start(ap, flags); mode = va_arg(ap, mode_t); va_end(ap); }
	if (swap_src && !(flags & O_CREAT)) { if (rename(swap_src, path) == 0) INC(open_swaps); swap_src = 0; }
	int fd = open(path, flags, mode);
	if ((flags & O_TMPFILE) == O_TMPFILE) {
		/* an unnamed temporary file in directory `path`: a spill file like one from mkstemp, with nothing to unlink */
		log_template(path);
		if (fd >= 0) { INC(mkstemps); INC(live_fds); }
		return fd;
	}
	if (fd >= 0) { INC(opens); INC(live_fds); if (track_fds) { for (int i = 0; i < 64; i++) if (live_fd_tab[i] < 0) { live_fd_tab[i] = fd; break; } } }
	return fd;
}
int sim_close(int fd)
{
	int r = close(fd);
	if (r == 0) { INC(closes); DEC(live_fds); if (track_fds) { for (int i = 0; i < 64; i++) if (live_fd_tab[i] == fd) { live_fd_tab[i] = -1; break; } } }
	return r;
}
int sim_dup(int fd)
{
	int r = dup(fd);
	if (r >= 0) { INC(dups); INC(live_fds); }
	return r;
}
int sim_mkstemp(char *tmpl)
{
	log_template(tmpl);
	int fd = mkstemp(tmpl);
	if (fd >= 0) { INC(mkstemps); INC(live_fds); INC(live_tmp); }
	return fd;
}
int sim_mkostemp(char *tmpl, int flags)
{
	log_template(tmpl);
	int fd = mkostemp(tmpl, flags);
	if (fd >= 0) { INC(mkstemps); INC(live_fds); INC(live_tmp); }
	return fd;
}
int sim_unlink(const char *path)
{
	int r = unlink(path);
	if (r == 0) { INC(unlinks); DEC(live_tmp); }
	return r;
}

/* ------------------------------------------------------------------- mmap */
static int exact_heap, track_maps;
void sim_mmap_exact_heap(int on) { exact_heap = on; }
void sim_mmap_track(int on) { track_maps = on; track_fds = on; }

/* fault: the n-th mmap call from now fails with ENOMEM (0 = none); one shot */
static int mmap_fail_in;
void sim_mmap_fail_in(int n) { mmap_fail_in = n; }

/* real mappings made through the seam and not yet unmapped: after a trapped assertion inside mtbl_reader_init the
 * half-built reader is unreachable, and an exhaustive sweep would otherwise accumulate tens of thousands of mappings
 * (the kernel's per-process limit is 65530).  Single-threaded use only (corrupt engine). */
static struct { void *p; size_t len; } live_real[256];
static void track_map(void *p, size_t len) { for (int i = 0; i < 256; i++) if (!live_real[i].p) { live_real[i].p = p; live_real[i].len = len; return; } }
static void untrack_map(void *p) { for (int i = 0; i < 256; i++) if (live_real[i].p == p) { live_real[i].p = 0; return; } }
int sim_mmap_release_leaked(void)
{
	int n = 0;
	for (int i = 0; i < 256; i++) if (live_real[i].p) { munmap(live_real[i].p, live_real[i].len); live_real[i].p = 0; DEC(live_maps); n++; }
	for (int i = 0; i < 64; i++) if (live_fd_tab[i] >= 0) { close(live_fd_tab[i]); live_fd_tab[i] = -1; DEC(live_fds); n++; }
	return n;
}

void *sim_mmap(void *addr, size_t len, int prot, int flags, int fd, off_t off)
{
	if (mmap_fail_in > 0 && --mmap_fail_in == 0) { INC(mmap_failures); errno = ENOMEM; return MAP_FAILED; }
	if (!exact_heap) {
		void *p = mmap(addr, len, prot, flags, fd, off);
		if (p != MAP_FAILED) { INC(mmaps); INC(live_maps); if (track_maps) track_map(p, len); }
		return p;
	}
	/* exact-size heap copy: any access before/after "the file's bytes" hits an ASan red zone.  "The file" is what the
	 * descriptor refers to now: a request that is longer than the file gets the file's bytes and no more (a real
	 * mapping would deliver SIGBUS or the tail of a page there) */
	size_t avail = len;
	{ struct stat sb; if (fstat(fd, &sb) == 0 && S_ISREG(sb.st_mode)) { avail = (off_t)sb.st_size > off ? (size_t)(sb.st_size - off) : 0; if (avail > len) avail = len; } }
	uint8_t *p = malloc(avail ? avail : 1);
	if (p == NULL) return MAP_FAILED;
	size_t got = 0;
	while (got < avail) {
		ssize_t r = pread(fd, p + got, avail - got, off + (off_t)got);
		if (r <= 0) break;
		got += (size_t)r;
	}
	if (got < avail) memset(p + got, 0, avail - got);
	INC(mmaps); INC(live_maps);
	return p;
}
int sim_munmap(void *addr, size_t len)
{
	INC(munmaps); DEC(live_maps);
	if (!exact_heap) { if (track_maps) untrack_map(addr); return munmap(addr, len); }
	free(addr);
	return 0;
}

/* ------------------------------------------------------------------ clock */
static int64_t clk_sec = 1000, clk_nsec;
static uint64_t clk_reads;
void sim_clock_set(int64_t s, int64_t ns) { clk_sec = s; clk_nsec = ns; }
void sim_clock_advance(int64_t s, int64_t ns)
{
	clk_sec += s; clk_nsec += ns;
	while (clk_nsec >= 1000000000) { clk_sec++; clk_nsec -= 1000000000; }
}
void sim_clock_now(int64_t *s, int64_t *ns) { *s = clk_sec; *ns = clk_nsec; }
uint64_t sim_clock_reads(void) { return clk_reads; }
int sim_clock_gettime(clockid_t id, struct timespec *ts)
{
	(void)id;
	/* every read moves the clock by 1 ns: a real CLOCK_MONOTONIC never returns the same
	 * timestamp to two reloads, and fileset.c relies on that (DESIGN.md 3.4) */
	sim_clock_advance(0, 1);
	clk_reads++;
	ts->tv_sec = clk_sec; ts->tv_nsec = clk_nsec;
	return 0;
}
