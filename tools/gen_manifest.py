#!/usr/bin/env python3
"""Regenerates /verif/MANIFEST.json from tools/props.py (single source of truth)."""
import json
import os
import subprocess
import sys

VERIF = os.path.dirname(os.path.dirname(os.path.abspath(__file__)))
sys.path.insert(0, os.path.join(VERIF, "tools"))
from props import PROPS, NA_REASONS, ENGINE_TEXT  # noqa: E402


def repo_commits():
    out = subprocess.run(["git", "-C", "/repo", "log", "--format=%H %s"], stdout=subprocess.PIPE, text=True).stdout
    return [l.split()[0] for l in out.splitlines() if "verif hook" in l]


def main():
    checks = []
    for pid in sorted(PROPS):
        c = PROPS[pid]
        checks.append(dict(
            property_id=pid,
            quick_cmd="bin/check %s quick" % pid,
            thorough_cmd="bin/check %s thorough" % pid,
            evidence_file="/verif/evidence/%s.json" % pid,
            replay_cmd_template="bin/check --replay {path}",
            engine=c["engine"],
            level_claimed=dict(category=c["level"], text=c["level_text"], design_ref=c.get("design_ref", "DESIGN.md section 5, " + pid)),
            level_note=c["level_note"],
            technique=c["technique"],
        ))
    engines = []
    for name, text in ENGINE_TEXT.items():
        serves = sorted(p for p, c in PROPS.items() if c["engine"] == name)
        if serves:
            engines.append(dict(name=name, path="/verif/engines/%s.cc" % name, serves_properties=serves, kind_free_text=text))
    m = dict(
        version=1,
        setup_cmd="make -C /verif -j16 all",
        hooks=dict(
            guard="MTBL_VERIF",
            enable="every library source listed in /repo/Makefile.am (mtbl_libmtbl_la_SOURCES) is compiled by /verif/Makefile from /repo's working tree with -DMTBL_VERIF plus seams given on the compiler command line, no source edit: -include sim/seams/pthread.h for every file (pthread_* -> the deterministic scheduler; pass-through while it is off); -Dwrite/-Dwritev/-Dpwrite/-Dpwritev/-Dopen/-Dclose/-Ddup=sim_* for writer.c; -Dmmap/-Dmunmap/-Dopen/-Dclose=sim_* for reader.c; -Dmkstemp/-Dmkostemp/-Dopen/-Dunlink/-Dclose=sim_* for sorter.c; -Dclock_gettime=sim_clock_gettime for fileset.c; -Wl,--wrap=__assert_fail for the assertion trap; no installed library or in-tree object is used",
            baseline_off_cmd="make -C /repo check",
            source_commits=repo_commits(),
            add_only=True,
        ),
        engines=engines,
        checks=checks,
        not_applicable=[dict(property_id=k, reason=v) for k, v in sorted(NA_REASONS.items())],
        notes="All checks are seeded deterministic simulations: bin/check <id> <tier> rebuilds from /repo's working tree, runs N seeded plans (VERIF_SEED, default 1), minimises and gates any violation (two fresh-process replays must agree) and writes evidence/<id>.json. Exit 0 held / 1 VIOLATION / 2 infrastructure error. known_findings.txt lists findings; see DESIGN.md.",
    )
    with open(os.path.join(VERIF, "MANIFEST.json"), "w") as f:
        json.dump(m, f, indent=1)
        f.write("\n")


if __name__ == "__main__":
    main()
