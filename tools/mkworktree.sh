#!/bin/sh
# mkworktree.sh <dir> : scratch git worktree of /repo at HEAD, plus the untracked build scaffolding
# (configure output, Makefile, libtool, config.h) so that `make check` works inside it.
set -e
d="$1"
git -C /repo worktree add --detach "$d" HEAD >/dev/null 2>&1
rsync -a --ignore-existing --exclude .git --exclude '*.o' --exclude '*.lo' --exclude '.libs' --exclude '*.la' --exclude 't/test-*[!.][!cs][!h]' /repo/ "$d"/
# generated Makefiles mention absolute paths of /repo only via srcdir=. ; nothing else to fix
echo "$d"
