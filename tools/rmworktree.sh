#!/bin/sh
# rmworktree.sh <dir> : remove a scratch worktree with its build output
git -C /repo worktree remove --force "$1" 2>/dev/null || rm -rf "$1"
git -C /repo worktree prune
