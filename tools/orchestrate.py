#!/usr/bin/env python3
"""Orchestrator of the mtbl deterministic-simulation checks.

  orchestrate.py check <Cxx> <quick|thorough>
  orchestrate.py replay <plan file>

No randomness of its own: every decision of a run derives from (VERIF_SEED,
run index) inside the engine; results are keyed and sorted by run index before
anything is derived from them.  Exit 0 / 1 (+ VIOLATION line) / 2 (infra).
"""
import concurrent.futures as cf
import fcntl
import hashlib
import json
import os, queue, threading
import re
import shutil
import subprocess
import sys
import time
import urllib.parse

VERIF = os.path.dirname(os.path.dirname(os.path.abspath(__file__)))
sys.path.insert(0, os.path.join(VERIF, "tools"))
from props import PROPS, REAL_COMMON  # noqa: E402

REPO = os.environ.get("MTBL_SRC", "/repo")
BUILD = os.environ.get("VERIF_BUILD", os.path.join(VERIF, "build"))
SHM = "/dev/shm"
ENV = dict(os.environ)
ENV["ASAN_SYMBOLIZER_PATH"] = "/usr/bin/llvm-symbolizer-14"
ENV["TSAN_SYMBOLIZER_PATH"] = "/usr/bin/llvm-symbolizer-14"
ENV["UBSAN_SYMBOLIZER_PATH"] = "/usr/bin/llvm-symbolizer-14"
ENV["MTBLSIM_TOOLS"] = os.path.join(BUILD, "tools")
ENV.pop("MTBL_READER_MADVISE_RANDOM", None)
NCPU = os.cpu_count() or 8


def log(*a):
    print(*a, flush=True)


# ------------------------------------------------------------------ build
def build():
    os.makedirs(BUILD, exist_ok=True)
    with open(os.path.join(BUILD, ".lock"), "w") as lk:
        fcntl.flock(lk, fcntl.LOCK_EX)
        t0 = time.time()
        r = subprocess.run(["make", "-C", VERIF, "-j%d" % NCPU, "all", "REPO=" + REPO, "B=" + BUILD],
                           stdout=subprocess.PIPE, stderr=subprocess.STDOUT, text=True)
        if r.returncode != 0:
            log(r.stdout[-6000:])
            log("INFRA-ERROR build failed (the repo tree does not compile with the simulation seams)")
            sys.exit(2)
        return time.time() - t0


def sim_bin(variant):
    return os.path.join(BUILD, variant, "mtblsim")


# ------------------------------------------------------------ result lines
def parse_run(line):
    d = {}
    for tok in line.split()[1:]:
        if "=" in tok:
            k, v = tok.split("=", 1)
            d[k] = v
    d["i"] = int(d["i"])
    for k in ("probes", "faults", "unjudged"):
        m = {}
        if d.get(k, "-") != "-":
            for kv in d[k].split(","):
                a, b = kv.rsplit(":", 1)
                m[a] = int(b)
        d[k] = m
    for k in ("class", "site", "detail"):
        if k in d:
            d[k] = urllib.parse.unquote(d[k])
    return d


REPO_FRAME = re.compile(r"#\d+ (?:0x[0-9a-f]+ in )?(\S+) (\S*?/(?:mtbl|libmy|src)/[^: ]+):(\d+)")


def classify_crash(rc, err, out):
    """(class, site, detail) for a process that died instead of printing a result"""
    m = re.search(r"SCHED-VERDICT (\S+) (.*)", out)
    if m:
        v = m.group(1)
        if v in ("DEADLOCK", "STEP-BUDGET", "HANG"):
            return (v, v.lower(), m.group(2)[:600])
        return ("SCHED", v, m.group(2)[:600])
    m = re.search(r"ThreadSanitizer: (SEGV|DEADLYSIGNAL)", err)
    if m or ("ThreadSanitizer:DEADLYSIGNAL" in err):
        f = REPO_FRAME.search(err)
        return ("SANITIZER", "tsan-signal@" + (f.group(1) if f else "?"), first_lines(err, 12))
    m = re.search(r"ThreadSanitizer: (data race|[a-z -]+)", err)
    if m:
        kind = m.group(1).strip().replace(" ", "-")
        # the site is the library function of the access being reported (the first stack).  The stack of the *previous*
        # access comes from ThreadSanitizer's bounded history and is sometimes "failed to restore the stack" in a process
        # that has executed many plans while a fresh replay of the same plan shows it - it is kept out of the signature
        funcs = []
        for blk in re.split(r"\n\s*\n", err):
            if "of size" in blk and "Previous" not in blk:
                f = REPO_FRAME.search(blk)
                if f:
                    funcs.append(f.group(1))
                break
        # a race whose conflicting access sits in the harness itself (top frame under /verif) is a harness bug
        tops = []
        lines = err.splitlines()
        for k, line in enumerate(lines[:-1]):
            if re.search(r"of size \d+ at 0x", line):
                mm = re.search(r"\s(/[^\s:]+):\d+", lines[k + 1])
                if mm:
                    tops.append(mm.group(1))
        if any(t.startswith(VERIF + "/") for t in tops):
            return ("INFRA", "harness-race", first_lines(err, 14))
        return ("RACE", kind + "@" + "+".join(funcs), first_lines(err, 14))
    m = re.search(r"ERROR: AddressSanitizer: ([A-Za-z0-9_-]+)", err)
    if m:
        f = REPO_FRAME.search(err)
        # the kind of a wild access (overflow vs SEGV) depends on what happens to be mapped: site = function only
        return ("SANITIZER", "asan@" + (f.group(1) if f else "?"), first_lines(err, 12))
    m = re.search(r"([^/\s:]+\.[ch]):(\d+):\d+: runtime error: (.*)", err)
    if m:
        return ("SANITIZER", "ubsan@%s:%s" % (m.group(1), m.group(2)), m.group(3)[:300])
    m = re.search(r"(\S+\.[ch]):(\d+): (.*?): Assertion `(.*)' failed", err)
    if m:
        fn = re.findall(r"(\w+)\s*\(", m.group(3))
        return ("ABORT", "assert@%s:%s" % (os.path.basename(m.group(1)), fn[-1] if fn else "?"), m.group(4)[:300])
    if "LeakSanitizer" in err:
        return ("SANITIZER", "leak", first_lines(err, 12))
    return ("CRASH", "exit%d" % rc, (err[-600:] or out[-300:]))


def first_lines(s, n):
    return "\n".join(s.strip().splitlines()[:n])[:1500]


# ----------------------------------------------------------------- workers
def run_chunk(cfg, prop, tier, seed, a, b, tmp, want_samples):
    """run indices [a,b) in one or more processes; returns (runs, crashes)"""
    runs, crashes = [], []
    cur = a
    tag = "%d_%d" % (a, b)
    pending = os.path.join(tmp, "pending.%s.plan" % tag)
    while cur < b:
        errf = os.path.join(tmp, "err.%s.txt" % tag)
        cmd = [sim_bin(cfg["variant"]), "run", "--engine", cfg["engine"], "--prop", prop, "--tier", tier,
               "--seed", str(seed), "--from", str(cur), "--to", str(b), "--pending", pending, "--violdir", tmp]
        if want_samples and cur == a:
            cmd += ["--samples", "3"]
        with open(errf, "w") as ef:
            p = run_watched(cmd, ef, pending)
        done = False
        last = cur - 1
        for line in p.stdout.splitlines():
            if line.startswith("RUN "):
                r = parse_run(line)
                runs.append(r)
                last = r["i"]
            elif line.startswith("DONE "):
                done = True
        if done and p.returncode == 0:
            break
        # the process died while executing run last+1
        culprit = last + 1
        with open(errf, errors="replace") as ef:
            err = ef.read()
        plan = ""
        try:
            with open(pending) as pf:
                plan = pf.read()
        except OSError:
            pass
        cls, site, detail = classify_crash(p.returncode, err, p.stdout)
        crashes.append(dict(i=culprit, st="viol", plan=plan, detail=detail, rc=p.returncode, **{"class": cls, "site": site}))
        cur = culprit + 1
    return runs, crashes


class Finished:
    def __init__(self, rc, out):
        self.returncode, self.stdout = rc, out


def stall_limit(pending):
    """seconds without a result line after which an engine process counts as hung: the in-process watchdogs (CPU 30 s,
    wall 300 s; 900 / 9000 s for exhaustive sweeps and the 4 GiB block) come first; this one also ends a process
    whose signal handlers cannot run (a thread blocked inside the sanitizer runtime)"""
    try:
        with open(pending) as f:
            t = f.read()
    except OSError:
        return 420
    return 9600 if re.search(r"^op (sweep|huge)", t, re.M) else 420


def run_watched(cmd, ef, pending):
    """runs cmd, collecting stdout; kills it when no line arrives within stall_limit() and reports that as a HANG verdict"""
    proc = subprocess.Popen(cmd, stdout=subprocess.PIPE, stderr=ef, text=True, env=ENV, errors="replace")
    q = queue.Queue()

    def pump():
        for line in proc.stdout:
            q.put(line)
        q.put(None)
    threading.Thread(target=pump, daemon=True).start()
    out = []
    while True:
        try:
            line = q.get(timeout=stall_limit(pending))
        except queue.Empty:
            proc.kill()
            proc.wait()
            out.append("SCHED-VERDICT HANG no result within the stall limit and the in-process watchdog did not fire (process killed)\n")
            return Finished(80, "".join(out))
        if line is None:
            break
        out.append(line)
    proc.wait()
    return Finished(proc.returncode, "".join(out))


def replay_once(variant, plan_text, tmp, tag):
    """returns dict(viol, class, site, fp, detail)"""
    pf = os.path.join(tmp, "replay.%s.plan" % tag)
    with open(pf, "w") as f:
        f.write(plan_text)
    errp = pf + ".err"
    with open(errp, "w") as ef:
        p = run_watched([sim_bin(variant), "replay", pf], ef, pf)
    with open(errp, errors="replace") as ef:
        p.stderr = ef.read()
    for line in p.stdout.splitlines():
        if line.startswith("RUN "):
            r = parse_run(line)
            if r["st"] == "viol":
                return dict(viol=True, fp=r["fp"], detail=r.get("detail", ""), **{"class": r["class"], "site": r["site"]})
            if p.returncode == 0:
                return dict(viol=False, fp=r["fp"])
    if p.returncode in (0, 2):
        return dict(viol=False, fp="", infra=(p.returncode == 2), detail=p.stderr[-300:])
    cls, site, detail = classify_crash(p.returncode, p.stderr, p.stdout)
    return dict(viol=True, fp="crash", detail=detail, **{"class": cls, "site": site})


def sig(r):
    return (r.get("class"), r.get("site"))


# ------------------------------------------------------------ minimisation
def split_plan(text):
    head, ops, tail = [], [], []
    for line in text.splitlines():
        if line.startswith("op "):
            ops.append(line)
        elif line.strip() == "end":
            tail.append(line)
        else:
            head.append(line)
    return head, ops


def join_plan(head, ops):
    return "\n".join(head + ops + ["end"]) + "\n"


CFG_SIMPLER = [("pool", "-1"), ("wfrag", "none"), ("prefix", "0"), ("comp", "0"), ("level", "def"), ("verify", "0"),
               ("madv", "0"), ("initfd", "0"), ("rinitfd", "0"), ("initexist", "0"), ("reinit", "0"), ("rint", "16"), ("rint", "2"),
               ("nsrc_user", "0"), ("dupsort", "0"), ("mergefail", "0"), ("tool", "0"), ("swrite", "0")]


def minimise(variant, text, want, tmp, budget_execs=400, budget_s=60):
    """ddmin-style reduction of the op list, then of cfg values, keeping the same (class, site)"""
    t0 = time.time()
    execs = [0]
    counter = [0]

    def still_fails(cands):
        """evaluate candidate plan texts in parallel -> list of bool"""
        res = [False] * len(cands)
        if time.time() - t0 > budget_s or execs[0] > budget_execs:
            return res
        with cf.ThreadPoolExecutor(max_workers=min(NCPU, max(1, len(cands)))) as ex:
            futs = {}
            for k, c in enumerate(cands):
                counter[0] += 1
                futs[ex.submit(replay_once, variant, c, tmp, "m%d" % counter[0])] = k
            for f in cf.as_completed(futs):
                r = f.result()
                res[futs[f]] = bool(r.get("viol")) and sig(r) == want
        execs[0] += len(cands)
        return res

    head, ops = split_plan(text)
    n = 2
    while len(ops) >= 1 and time.time() - t0 < budget_s and execs[0] < budget_execs:
        n = min(n, len(ops))
        size = (len(ops) + n - 1) // n
        chunks = [(i, min(i + size, len(ops))) for i in range(0, len(ops), size)]
        cands = [join_plan(head, ops[:a] + ops[b:]) for a, b in chunks]
        ok = still_fails(cands)
        good = [c for c, o in zip(chunks, ok) if o]
        if good:
            # try removing all individually removable chunks at once, else just the first
            if len(good) > 1:
                keep = [o for k, o in enumerate(ops) if not any(a <= k < b for a, b in good)]
                if still_fails([join_plan(head, keep)])[0]:
                    ops = keep
                else:
                    a, b = good[0]
                    ops = ops[:a] + ops[b:]
            else:
                a, b = good[0]
                ops = ops[:a] + ops[b:]
            n = max(n - 1, 2)
        else:
            if size == 1:
                break
            n = min(n * 2, len(ops))
    # cfg simplification
    for key, val in CFG_SIMPLER:
        if time.time() - t0 > budget_s or execs[0] > budget_execs:
            break
        new = []
        changed = False
        for line in head:
            if line.startswith("cfg " + key + " ") and line != "cfg %s %s" % (key, val):
                new.append("cfg %s %s" % (key, val))
                changed = True
            else:
                new.append(line)
        if changed and still_fails([join_plan(new, ops)])[0]:
            head = new
    # argument shrinking: byte-string arguments (values first) are replaced by the empty string or by their first half
    SPEC = re.compile(r"^(x[0-9a-f]*|c\d+x[0-9a-f]{2}|p\d+s\d+)(\+(x[0-9a-f]*|c\d+x[0-9a-f]{2}|p\d+s\d+))*$")

    def shorter(tok):
        out = ["x"]
        if tok.startswith("x") and "+" not in tok and len(tok) > 5:
            h = tok[1:]
            out.append("x" + h[:(len(h) // 4) * 2])
        elif tok.startswith(("c", "p")) and "+" not in tok:
            m = re.match(r"([cp])(\d+)(.*)", tok)
            if m and int(m.group(2)) > 2:
                out.append("%s%d%s" % (m.group(1), int(m.group(2)) // 2, m.group(3)))
        return [o for o in out if o != tok]

    for round_ in range(2):
        if time.time() - t0 > budget_s or execs[0] > budget_execs:
            break
        sites = []
        for li, line in enumerate(ops):
            toks = line.split(" ")
            for ai in range(len(toks) - 1, 1, -1):
                if SPEC.match(toks[ai]) and len(toks[ai]) > 1:
                    for cand in shorter(toks[ai])[:1 if round_ == 0 else 2][-1:]:
                        sites.append((li, ai, cand))
        if not sites:
            break
        sites = sites[:64]
        cands = []
        for li, ai, cand in sites:
            toks = ops[li].split(" ")
            toks[ai] = cand
            cands.append(join_plan(head, ops[:li] + [" ".join(toks)] + ops[li + 1:]))
        ok = still_fails(cands)
        good = [st for st, o in zip(sites, ok) if o]
        if not good:
            continue
        trial = list(ops)
        for li, ai, cand in good:
            toks = trial[li].split(" ")
            toks[ai] = cand
            trial[li] = " ".join(toks)
        if still_fails([join_plan(head, trial)])[0]:
            ops = trial
        else:
            for li, ai, cand in good[:12]:
                toks = ops[li].split(" ")
                toks[ai] = cand
                t2 = ops[:li] + [" ".join(toks)] + ops[li + 1:]
                if still_fails([join_plan(head, t2)])[0]:
                    ops = t2
    return join_plan(head, ops), execs[0]


# ------------------------------------------------------------ known findings
def load_known():
    known = []
    path = os.path.join(VERIF, "known_findings.txt")
    if not os.path.exists(path):
        return known
    for line in open(path):
        line = line.strip()
        if not line.startswith("known:"):
            continue  # "fixed:" entries and comments suppress nothing
        d = dict(re.findall(r"(\w+)=(\S+)", line))
        what = line.split("#", 1)[1].strip() if "#" in line else ""
        known.append(dict(prop=d.get("property"), cls=d.get("class"), site=d.get("site"), what=what))
    return known


def match_known(known, prop, v):
    for k in known:
        if k["prop"] == prop and k["cls"] == v["class"] and re.fullmatch(k["site"], v["site"] or ""):
            return k
    return None


# ------------------------------------------------------------------- check
def check(prop, tier):
    if prop not in PROPS:
        log("INFRA-ERROR unknown or unclaimed property %s" % prop)
        return 2
    cfg = PROPS[prop]
    seed = int(os.environ.get("VERIF_SEED", "1"))
    t_start = time.time()
    bt = build()
    total = int(os.environ.get("VERIF_RUNS", cfg[tier]))
    chunk = cfg["chunk"]
    workers = int(os.environ.get("VERIF_WORKERS", cfg.get("workers", NCPU)))
    tmp = os.path.join(SHM, "mtblverif.%s.%d" % (prop, os.getpid()))
    shutil.rmtree(tmp, ignore_errors=True)
    os.makedirs(tmp)
    ENV["MTBLSIM_SCRATCH"] = tmp
    try:
        return check_inner(prop, tier, cfg, seed, total, chunk, workers, tmp, t_start, bt)
    finally:
        shutil.rmtree(tmp, ignore_errors=True)


COLD_RUNS = 0


def check_inner(prop, tier, cfg, seed, total, chunk, workers, tmp, t_start, bt):
    t_run = time.time()
    total_agg = aggregate([])
    crashes = []
    if tier == "thorough":
        chunk *= 4
    chunks = [(a, min(a + chunk, total)) for a in range(0, total, chunk)]
    # cold-start runs: one plan per fresh process, so the plan's threads are the first to enter the library and
    # meet every lazily initialised process-global cold (inside a chunk only its first plan does)
    cold = int(os.environ.get("VERIF_COLD", cfg.get("cold_" + tier, 0)))
    if "VERIF_RUNS" in os.environ and "VERIF_COLD" not in os.environ:
        cold = min(cold, total // 20)
    chunks += [(a, a + 1) for a in range(total, total + cold)]
    global COLD_RUNS
    COLD_RUNS = cold
    deadline = None
    wall_cap = float(os.environ.get("VERIF_WALL_CAP", cfg.get("wall_cap_" + tier, 0)) or 0)
    if wall_cap:
        deadline = time.time() + wall_cap
    skipped = 0
    with cf.ThreadPoolExecutor(max_workers=workers) as ex:
        futs = []
        for k, (a, b) in enumerate(chunks):
            futs.append(ex.submit(run_chunk_guard, deadline, cfg, prop, tier, seed, a, b, tmp, k == 0))
        for f in futs:
            r = f.result()
            if r is None:
                skipped += 1
                continue
            merge_agg(total_agg, r[0])
            crashes += r[1]
    crashes.sort(key=lambda r: r["i"])
    run_wall = time.time() - t_run

    viols = []
    for r in sorted(total_agg["viols"], key=lambda r: r["i"]):
        try:
            r["plan"] = open(os.path.join(tmp, "viol.%d.plan" % r["i"])).read()
        except OSError:
            r["plan"] = ""
        viols.append(r)
    viols += crashes
    viols.sort(key=lambda r: r["i"])
    if any(v["class"] == "INFRA" for v in viols):
        v = [v for v in viols if v["class"] == "INFRA"][0]
        log("INFRA-ERROR harness failure in run %d: %s %s" % (v["i"], v["site"], v.get("detail", "")))
        return 2

    # one representative (the lowest run index) per distinct signature
    reps = {}
    for v in viols:
        reps.setdefault(sig(v), v)
    known = load_known()
    rc = 0
    reported = []
    REPLAYS = os.environ.get("VERIF_REPLAY_DIR", os.path.join(VERIF, "replays"))
    os.makedirs(REPLAYS, exist_ok=True)
    for s, v in list(reps.items())[:4]:
        if not v.get("plan"):
            log("INFRA-ERROR violation in run %d has no plan file" % v["i"])
            return 2
        # confirm in a fresh process before spending time on it
        first = replay_once(cfg["variant"], v["plan"], tmp, "c%d" % v["i"])
        if not first.get("viol") or sig(first) != s:
            log("INFRA-ERROR nondeterministic replay: run %d reported %s, fresh replay gave %s" % (v["i"], s, sig(first)))
            return 2
        small, execs = minimise(cfg["variant"], v["plan"], s, tmp)
        g1 = replay_once(cfg["variant"], small, tmp, "g1_%d" % v["i"])
        g2 = replay_once(cfg["variant"], small, tmp, "g2_%d" % v["i"])
        if not (g1.get("viol") and g2.get("viol") and sig(g1) == s and sig(g2) == s and g1["fp"] == g2["fp"]):
            log("INFRA-ERROR nondeterministic replay of minimised plan for run %d: %s / %s" % (v["i"], g1, g2))
            return 2
        path = os.path.join(REPLAYS, "%s-%d-%d.plan" % (prop, seed, v["i"]))
        nops = len(split_plan(small)[1])
        with open(path, "w") as f:
            f.write("# violation of %s: class=%s site=%s\n# %s\n# found at seed=%d run=%d, minimised to %d ops in %d re-executions; replay: bin/check --replay %s\n" % (
                prop, s[0], s[1], g1.get("detail", "").replace("\n", "\n# "), seed, v["i"], nops, execs, path))
            f.write(small)
        k = match_known(known, prop, dict(**{"class": s[0], "site": s[1]}))
        n_same = sum(1 for x in viols if sig(x) == s)
        if k:
            log("KNOWN-FINDING: property=%s %s (class=%s site=%s, %d runs; replay=%s)" % (prop, k["what"], s[0], s[1], n_same, path))
        else:
            log("VIOLATION property=%s replay=%s" % (prop, path))
            log("  class=%s site=%s runs=%d first_run=%d ops_after_minimisation=%d" % (s[0], s[1], n_same, v["i"], nops))
            log("  " + g1.get("detail", "").replace("\n", "\n  ")[:1500])
            rc = 1
        reported.append(dict(cls=s[0], site=s[1], runs=n_same, replay=path, known=bool(k)))

    write_evidence(prop, tier, cfg, seed, total_agg, crashes, viols, reported, run_wall, time.time() - t_start, bt, tmp, skipped * 1)
    log("%s %s: %d runs (%d non-trivial, %d distinct) in %.1fs (+%.1fs build), %d violations%s" % (
        prop, tier, total_agg["n"] + len(crashes), total_agg["nt"], len(total_agg["fps"]), run_wall, bt, len(viols),
        (", %d chunks skipped at wall cap" % skipped) if skipped else ""))
    return rc


def run_chunk_guard(deadline, *a):
    if deadline and time.time() > deadline:
        return None
    runs, crashes = run_chunk(*a)
    return aggregate(runs), crashes


def aggregate(runs):
    """per-chunk summary: only violations keep their per-run record (memory: thorough tiers run > 10^6 plans)"""
    agg = dict(n=len(runs), nt=0, fps=set(), scheds=set(), probes={}, faults={}, unjudged={}, steps=0, simns=0, abs=0, viols=[])
    for r in runs:
        if r["nt"] == "1":
            agg["nt"] += 1
            agg["fps"].add(int(r["fp"], 16))
        if r["sh"] != "0000000000000000":
            agg["scheds"].add(int(r["sh"], 16))
        for dst, key in ((agg["probes"], "probes"), (agg["faults"], "faults"), (agg["unjudged"], "unjudged")):
            for k, v in r[key].items():
                dst[k] = dst.get(k, 0) + v
        agg["steps"] += int(r["steps"]); agg["simns"] += int(r["simns"]); agg["abs"] += int(r.get("abs", 0))
        if r["st"] == "viol":
            agg["viols"].append(r)
    return agg


def merge_agg(a, b):
    a["n"] += b["n"]; a["nt"] += b["nt"]; a["fps"] |= b["fps"]; a["scheds"] |= b["scheds"]
    for key in ("probes", "faults", "unjudged"):
        for k, v in b[key].items():
            a[key][k] = a[key].get(k, 0) + v
    a["steps"] += b["steps"]; a["simns"] += b["simns"]; a["abs"] += b["abs"]
    a["viols"] += b["viols"]
    return a


def summarise_plan(text, maxops=60):
    lines = text.splitlines()
    cfgl = [line[4:] for line in lines if line.startswith("cfg ")]
    ops = [line[3:][:160] for line in lines if line.startswith("op ")]
    hdr = [line for line in lines if line.split(" ")[0] in ("engine", "prop", "seed", "run")]
    out = dict(id=" ".join(hdr), cfg=cfgl, n_ops=len(ops), ops=ops[:maxops])
    if len(ops) > maxops:
        out["ops_truncated"] = True
    return out


def write_evidence(prop, tier, cfg, seed, agg, crashes, viols, reported, run_wall, wall, bt, tmp, skipped):
    probes, faults, unjudged = agg["probes"], agg["faults"], agg["unjudged"]
    samples = []
    for fn in sorted(os.listdir(tmp)):
        if fn.startswith("sample.") and len(samples) < 3:
            samples.append(summarise_plan(open(os.path.join(tmp, fn)).read()))
    if not samples:
        samples.append(dict(note="no non-trivial sample among the first runs of chunk 0"))
    zero = [p for p in cfg.get("expect_probes", []) if probes.get(p, 0) == 0]
    n_eval = agg["n"] + len(crashes)
    ev = dict(
        property_id=prop, tier=tier, seed=seed, level=cfg["level"], wall_s=round(wall, 2), violations=len(viols),
        coverage=dict(
            evaluations=n_eval,
            distinct_nontrivial=len(agg["fps"]),
            rule=cfg["rule"],
            samples=samples,
            nontrivial_runs=agg["nt"],
            runs_per_hour=int(n_eval / run_wall * 3600) if run_wall > 0 else 0,
            run_wall_s=round(run_wall, 2), build_s=round(bt, 2),
            engine=cfg["engine"], variant=cfg["variant"],
            faults_fired=faults, probes_hit=probes, probes_expected_but_zero=zero,
            unjudged_aborted_histories=unjudged,
            scheduling_steps=agg["steps"], distinct_schedules=len(agg["scheds"]),
            abstract_sched_states_sum=agg["abs"],
            simulated_seconds=round(agg["simns"] / 1e9, 3),
            components=REAL_COMMON + cfg.get("stubs", []),
            violations_reported=reported,
            chunks_skipped_at_wall_cap=skipped,
            cold_start_runs=COLD_RUNS,
        ),
        assumptions=cfg.get("assumptions", []) + [
            "sampling, not proof: a clean batch is evidence for the explored runs only",
            "x86-64 little-endian host; the kernel (tmpfs, fstat, mmap, mkstemp) is real; of its failures only those named under faults_fired are injected (write(2) short / EINTR / hard errors for C20, mmap ENOMEM for C18)",
            "every run is a pure function of (VERIF_SEED=%d, run index, /repo working tree): replay with bin/check --replay <plan>" % seed,
        ],
    )
    for w in zero:
        log("WARNING probe '%s' was never hit in this batch" % w)
    evdir = os.environ.get("VERIF_EVIDENCE_DIR", os.path.join(VERIF, "evidence"))
    os.makedirs(evdir, exist_ok=True)
    with open(os.path.join(evdir, prop + ".json"), "w") as f:
        json.dump(ev, f, indent=1, sort_keys=True)
        f.write("\n")


def replay_cmd(path):
    build()
    text = open(path).read()
    m = re.search(r"^prop (\S+)", text, re.M)
    prop = m.group(1) if m else ""
    variant = PROPS.get(prop, {}).get("variant", "asan")
    tmp = os.path.join(SHM, "mtblverif.replay.%d" % os.getpid())
    os.makedirs(tmp, exist_ok=True)
    ENV["MTBLSIM_SCRATCH"] = tmp
    try:
        r = replay_once(variant, "\n".join(l for l in text.splitlines() if not l.startswith("#")) + "\n", tmp, "r")
    finally:
        shutil.rmtree(tmp, ignore_errors=True)
    if r.get("viol"):
        log("VIOLATION property=%s replay=%s" % (prop, path))
        log("  class=%s site=%s" % (r["class"], r["site"]))
        log("  " + r.get("detail", "").replace("\n", "\n  "))
        return 1
    if r.get("infra"):
        log("INFRA-ERROR " + r.get("detail", ""))
        return 2
    log("replay of %s: no violation (fingerprint %s)" % (path, r.get("fp")))
    return 0


def main():
    if len(sys.argv) >= 3 and sys.argv[1] == "replay":
        sys.exit(replay_cmd(sys.argv[2]))
    if len(sys.argv) >= 4 and sys.argv[1] == "check":
        sys.exit(check(sys.argv[2], sys.argv[3]))
    log(__doc__)
    sys.exit(2)


if __name__ == "__main__":
    main()
